// Package model is the independent slice-location model (must/may sets) and
// the recoverability prediction used as oracle by several checks.
package model

import (
	"bytes"
	"sort"

	"verifharness/ref/gf16"
)

// ProtFile is one protected file (original content) in recovery-set order.
type ProtFile struct {
	Name string
	Data []byte
}

// Loc is the result of Locate.
type Loc struct {
	NSlices   int
	FileOf    []int  // global slice -> file index
	May       []bool // content occurs somewhere (zero padded only at end of file) in a surviving protected file
	Must      []bool // occurs isolated (no other occurrence within S bytes) or belongs to an undamaged file
	NMay      int
	NMust     int
	Ambiguous bool
	Intact    []bool // per file: present under its own name with the original bytes
}

const (
	b1 = 0x9E3779B97F4A7C15
	b2 = 0xC2B2AE3D27D4EB4F
)

type hk struct{ a, b uint64 }

func hashWin(w []byte) hk {
	var a, b uint64
	for _, c := range w {
		a = a*b1 + uint64(c) + 1
		b = b*b2 + uint64(c) + 7
	}
	return hk{a, b}
}

func pow(b uint64, n int) uint64 {
	r := uint64(1)
	for i := 0; i < n; i++ {
		r *= b
	}
	return r
}

// Locate computes the may/must sets of the protected slices for the current
// contents (name -> bytes, absent = missing) of the protected names.
func Locate(S int, prot []ProtFile, cur map[string][]byte) Loc {
	var l Loc
	classOf := []int{}
	classes := map[hk]int{}
	nclass := 0
	for fi, f := range prot {
		for o := 0; o < len(f.Data); o += S {
			w := make([]byte, S)
			copy(w, f.Data[o:])
			k := hashWin(w)
			c, ok := classes[k]
			if !ok {
				c = nclass
				nclass++
				classes[k] = c
			}
			classOf = append(classOf, c)
			l.FileOf = append(l.FileOf, fi)
		}
	}
	l.NSlices = len(classOf)
	mayC := make([]bool, nclass)
	mustC := make([]bool, nclass)
	pa, pb := pow(b1, S-1), pow(b2, S-1)
	// sum of the "+1"/"+7" offsets is folded in because every window has exactly S terms
	for _, f := range prot {
		data, ok := cur[f.Name]
		if !ok {
			continue
		}
		n := len(data)
		if n == 0 {
			continue
		}
		at := func(i int) byte {
			if i < n {
				return data[i]
			}
			return 0
		}
		// occurrences: offset -> class
		type occ struct{ off, class int }
		var occs []occ
		var a, b uint64
		for i := 0; i < S; i++ {
			a = a*b1 + uint64(at(i)) + 1
			b = b*b2 + uint64(at(i)) + 7
		}
		for o := 0; o < n; o++ {
			if c, ok := classes[hk{a, b}]; ok {
				occs = append(occs, occ{o, c})
			}
			// slide
			out := uint64(at(o))
			in := uint64(at(o + S))
			a = (a-(out+1)*pa)*b1 + in + 1
			b = (b-(out+7)*pb)*b2 + in + 7
		}
		for i, oc := range occs {
			mayC[oc.class] = true
			isolated := true
			if i > 0 && oc.off-occs[i-1].off < S {
				isolated = false
			}
			if i+1 < len(occs) && occs[i+1].off-oc.off < S {
				isolated = false
			}
			if isolated {
				mustC[oc.class] = true
			}
		}
	}
	l.Intact = make([]bool, len(prot))
	g := 0
	for fi, f := range prot {
		ns := (len(f.Data) + S - 1) / S
		if d, ok := cur[f.Name]; ok && bytes.Equal(d, f.Data) {
			l.Intact[fi] = true
			for k := 0; k < ns; k++ {
				mustC[classOf[g+k]] = true
				mayC[classOf[g+k]] = true
			}
		}
		g += ns
	}
	l.May = make([]bool, l.NSlices)
	l.Must = make([]bool, l.NSlices)
	for s, c := range classOf {
		l.May[s], l.Must[s] = mayC[c], mustC[c]
		if l.May[s] {
			l.NMay++
		}
		if l.Must[s] {
			l.NMust++
		}
		if l.May[s] != l.Must[s] {
			l.Ambiguous = true
		}
	}
	return l
}

// Missing returns the global indices of slices not in the given set.
func Missing(set []bool) []int {
	var m []int
	for i, v := range set {
		if !v {
			m = append(m, i)
		}
	}
	return m
}

var par2c = gf16.PAR2Constants(32768)

// Solvable reports whether the PAR2 system for the missing slices on the
// lowest-numbered len(missing) available exponents is non-singular.
// enough=false when fewer exponents than missing slices are available.
func Solvable(missing []int, exps []int) (enough, nonsingular bool) {
	k := len(missing)
	e := append([]int{}, exps...)
	sort.Ints(e)
	// distinct
	u := e[:0]
	for i, v := range e {
		if i == 0 || v != e[i-1] {
			u = append(u, v)
		}
	}
	e = u
	if k > len(e) {
		return false, false
	}
	if k == 0 {
		return true, true
	}
	m := make([]uint16, k*k)
	for r := 0; r < k; r++ {
		for c, s := range missing {
			m[r*k+c] = gf16.FPow(par2c[s], uint64(e[r]))
		}
	}
	rank, _ := gf16.FRank(k, k, m)
	return true, rank == k
}
