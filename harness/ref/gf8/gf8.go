// Package gf8 is an independent bit-serial GF(2^8) modulo 0x11D (PAR 1.0).
package gf8

const Poly = 0x11D

func Mul(a, b byte) byte {
	var acc uint16
	x := uint16(a)
	for i := 0; i < 8; i++ {
		if b&(1<<uint(i)) != 0 {
			acc ^= x
		}
		x <<= 1
		if x&0x100 != 0 {
			x ^= Poly
		}
	}
	return byte(acc)
}

func Pow(a byte, p int) byte {
	r := byte(1)
	for i := 0; i < p; i++ {
		r = Mul(r, a)
	}
	return r
}

func Inv(a byte) byte { return Pow(a, 254) }

// Rank of rows x cols matrix.
func Rank(rows, cols int, m []byte) int {
	a := make([]byte, len(m))
	copy(a, m)
	rank := 0
	for col := 0; col < cols && rank < rows; col++ {
		p := -1
		for r := rank; r < rows; r++ {
			if a[r*cols+col] != 0 {
				p = r
				break
			}
		}
		if p < 0 {
			continue
		}
		for k := 0; k < cols; k++ {
			a[p*cols+k], a[rank*cols+k] = a[rank*cols+k], a[p*cols+k]
		}
		inv := Inv(a[rank*cols+col])
		for k := 0; k < cols; k++ {
			a[rank*cols+k] = Mul(a[rank*cols+k], inv)
		}
		for r := 0; r < rows; r++ {
			if r == rank || a[r*cols+col] == 0 {
				continue
			}
			f := a[r*cols+col]
			for k := 0; k < cols; k++ {
				a[r*cols+k] ^= Mul(f, a[rank*cols+k])
			}
		}
		rank++
	}
	return rank
}
