// Package run is the shared case runner of the verification harness:
// configuration from the environment, statistics/evidence recording,
// replay files, known-finding signatures and panic capture.
package run

import (
	"encoding/json"
	"flag"
	"fmt"
	"hash/fnv"
	"os"
	"os/exec"
	"path/filepath"
	"runtime/debug"
	"sort"
	"strconv"
	"strings"
	"sync"
	"syscall"
	"testing"
	"time"
)

// Cfg is the per-process configuration, set by bin/check through the environment.
type Cfg struct {
	ID      string
	Tier    string // quick | thorough
	Seed    int64  // VERIF_SEED
	Shard   int
	NShards int
	OutDir  string // where shard-<k>.json goes
	Replay  string // if non-empty: replay this file only
	Root    string // /verif
}

func envInt(k string, d int64) int64 {
	if v := os.Getenv(k); v != "" {
		if n, err := strconv.ParseInt(v, 10, 64); err == nil {
			return n
		}
	}
	return d
}

// Load reads the configuration for property id.
func Load(id string) *Cfg {
	c := &Cfg{ID: id}
	c.Tier = os.Getenv("VERIF_TIER")
	if c.Tier != "thorough" {
		c.Tier = "quick"
	}
	c.Seed = envInt("VERIF_SEED", 1)
	c.Shard = int(envInt("VERIF_SHARD", 0))
	c.NShards = int(envInt("VERIF_NSHARDS", 1))
	c.OutDir = os.Getenv("VERIF_OUT")
	c.Replay = os.Getenv("VERIF_REPLAY")
	c.Root = os.Getenv("VERIF_ROOT")
	if c.Root == "" {
		c.Root = "/verif"
	}
	return c
}

// Thorough reports whether the thorough tier is selected.
func (c *Cfg) Thorough() bool { return c.Tier == "thorough" }

// N picks a per-tier count.
func (c *Cfg) N(quick, thorough int) int {
	if c.Thorough() {
		return thorough
	}
	return quick
}

// RapidSeed is the PRNG value for this shard and a sub-stream index; never 0.
func (c *Cfg) RapidSeed(stream int) uint64 {
	v := (uint64(c.Seed)*1000003 + uint64(c.Shard)*7919 + uint64(stream)*104729) % 2147483645
	return 1 + v
}

// SetRapid configures rapid's flags for the next rapid.Check call.
func (c *Cfg) SetRapid(checks int, stream int) {
	flag.Set("rapid.checks", strconv.Itoa(checks))
	flag.Set("rapid.seed", strconv.FormatUint(c.RapidSeed(stream), 10))
	flag.Set("rapid.nofailfile", "true")
	flag.Set("rapid.shrinktime", "15s")
	flag.Set("rapid.steps", "30")
}

// Mine reports whether enumeration index i belongs to this shard.
func (c *Cfg) Mine(i int) bool { return c.NShards <= 1 || i%c.NShards == c.Shard }

// Violation is one reported failure.
type Violation struct {
	Replay string `json:"replay"`
	Msg    string `json:"msg"`
}

// Rec accumulates statistics for one shard process.
type Rec struct {
	mu          sync.Mutex
	cfg         *Cfg
	start       time.Time
	Evaluations uint64
	Classes     map[string]uint64
	hashes      map[uint64]struct{}
	DistinctAdd uint64 // structurally distinct non-trivial cases counted by enumeration
	Samples     []json.RawMessage
	Excluded    map[string]uint64
	Violations  []Violation
	Inconcl     map[string]uint64
	Extra       map[string]interface{}
	known       map[string]KnownEntry
	maxSamples  int
}

// KnownEntry is one entry of known_findings.json.
type KnownEntry struct {
	Property string `json:"property"`
	Key      string `json:"key"`
	Status   string `json:"status"` // open | fixed
	Commit   string `json:"commit,omitempty"`
	What     string `json:"what"`
}

// NewRec creates a recorder and loads the known-findings file.
func NewRec(cfg *Cfg) *Rec {
	r := &Rec{cfg: cfg, start: time.Now(), Classes: map[string]uint64{}, hashes: map[uint64]struct{}{},
		Excluded: map[string]uint64{}, Inconcl: map[string]uint64{}, Extra: map[string]interface{}{},
		known: map[string]KnownEntry{}, maxSamples: 5}
	b, err := os.ReadFile(filepath.Join(cfg.Root, "known_findings.json"))
	if err == nil {
		var f struct {
			Findings []KnownEntry `json:"findings"`
		}
		if json.Unmarshal(b, &f) == nil {
			for _, e := range f.Findings {
				r.known[e.Property+"/"+e.Key] = e
			}
		}
	}
	return r
}

// Cfg returns the configuration.
func (r *Rec) Cfg() *Cfg { return r.cfg }

// Eval counts one evaluation.
func (r *Rec) Eval() { r.mu.Lock(); r.Evaluations++; r.mu.Unlock() }

// EvalN counts n evaluations.
func (r *Rec) EvalN(n uint64) { r.mu.Lock(); r.Evaluations += n; r.mu.Unlock() }

// Class increments a class counter.
func (r *Rec) Class(name string) { r.mu.Lock(); r.Classes[name]++; r.mu.Unlock() }

// ClassN adds n to a class counter.
func (r *Rec) ClassN(name string, n uint64) { r.mu.Lock(); r.Classes[name] += n; r.mu.Unlock() }

// Hash64 is the canonical 64-bit hash of a case.
func Hash64(c interface{}) uint64 {
	b, _ := json.Marshal(c)
	h := fnv.New64a()
	h.Write(b)
	return h.Sum64()
}

// NonTrivial records a non-trivial case (distinct by hash of its JSON) and keeps samples.
func (r *Rec) NonTrivial(c interface{}) {
	b, _ := json.Marshal(c)
	h := fnv.New64a()
	h.Write(b)
	r.mu.Lock()
	defer r.mu.Unlock()
	k := h.Sum64()
	if _, ok := r.hashes[k]; ok {
		return
	}
	r.hashes[k] = struct{}{}
	if len(r.Samples) < r.maxSamples && len(b) < 6000 {
		// spread the samples: take the 1st, 10th, 100th ... distinct case
		n := len(r.hashes)
		if n == 1 || n == 10 || n == 100 || n == 1000 || n == 10000 {
			r.Samples = append(r.Samples, json.RawMessage(b))
		}
	}
}

// AddDistinct counts n structurally distinct non-trivial cases of an enumeration.
func (r *Rec) AddDistinct(n uint64) { r.mu.Lock(); r.DistinctAdd += n; r.mu.Unlock() }

// Sample stores a sample explicitly.
func (r *Rec) Sample(c interface{}) {
	b, _ := json.Marshal(c)
	r.mu.Lock()
	if len(r.Samples) < r.maxSamples+3 {
		r.Samples = append(r.Samples, json.RawMessage(b))
	}
	r.mu.Unlock()
}

// Inconclusive counts a case that could not be decided (time-out, resource limit).
func (r *Rec) Inconclusive(why string) { r.mu.Lock(); r.Inconcl[why]++; r.mu.Unlock() }

// SetExtra stores an extra coverage key.
func (r *Rec) SetExtra(k string, v interface{}) { r.mu.Lock(); r.Extra[k] = v; r.mu.Unlock() }

// KnownOpen reports whether key is an open known finding of this property.
func (r *Rec) KnownOpen(key string) bool {
	e, ok := r.known[r.cfg.ID+"/"+key]
	return ok && e.Status == "open"
}

// ReplayFile is the on-disk format of a replay.
type ReplayFile struct {
	Property string          `json:"property"`
	Kind     string          `json:"kind,omitempty"`
	Msg      string          `json:"msg,omitempty"`
	Case     json.RawMessage `json:"case"`
}

// Fail handles an oracle failure for case c.  If key names an open known
// finding the failure is counted as excluded and Fail returns "" (the search
// continues).  Otherwise the case is written to a replay file, the
// violation is recorded and the replay path is returned.
func (r *Rec) Fail(kind string, c interface{}, key, msg string) string {
	if key != "" && r.KnownOpen(key) {
		r.mu.Lock()
		r.Excluded[key]++
		r.mu.Unlock()
		return ""
	}
	if r.cfg.Replay != "" {
		r.mu.Lock()
		r.Violations = append(r.Violations, Violation{Replay: r.cfg.Replay, Msg: msg})
		r.mu.Unlock()
		return r.cfg.Replay
	}
	b, _ := json.Marshal(c)
	dir := filepath.Join(r.cfg.Root, "replays", r.cfg.ID)
	os.MkdirAll(dir, 0o755)
	name := fmt.Sprintf("%s-seed%d-shard%d.json", kind, r.cfg.Seed, r.cfg.Shard)
	p := filepath.Join(dir, name)
	rf := ReplayFile{Property: r.cfg.ID, Kind: kind, Msg: msg, Case: b}
	out, _ := json.MarshalIndent(rf, "", " ")
	os.WriteFile(p, out, 0o644)
	r.mu.Lock()
	// keep one violation per replay path (shrinking rewrites the same file)
	found := false
	for i := range r.Violations {
		if r.Violations[i].Replay == p {
			r.Violations[i].Msg = msg
			found = true
		}
	}
	if !found {
		r.Violations = append(r.Violations, Violation{Replay: p, Msg: msg})
	}
	r.mu.Unlock()
	r.Flush()
	return p
}

// SetCurrent records the case that is about to be evaluated in a side file, so that the driver can attribute a
// crash of the whole process (a panic in a worker goroutine of the code under test cannot be recovered) to it.
func (r *Rec) SetCurrent(kind string, c interface{}) {
	if r.cfg.OutDir == "" || r.cfg.Replay != "" {
		return
	}
	b, _ := json.Marshal(c)
	rf := ReplayFile{Property: r.cfg.ID, Kind: kind, Msg: "the process crashed while this case was being evaluated", Case: b}
	out, _ := json.Marshal(rf)
	os.WriteFile(filepath.Join(r.cfg.OutDir, fmt.Sprintf("current-%d.json", r.cfg.Shard)), out, 0o644)
}

// NViolations returns the number of recorded violations.
func (r *Rec) NViolations() int { r.mu.Lock(); defer r.mu.Unlock(); return len(r.Violations) }

type shardOut struct {
	ID          string                 `json:"id"`
	Shard       int                    `json:"shard"`
	Evaluations uint64                 `json:"evaluations"`
	Classes     map[string]uint64      `json:"classes"`
	Hashes      []uint64               `json:"hashes"`
	DistinctAdd uint64                 `json:"distinct_add"`
	Samples     []json.RawMessage      `json:"samples"`
	Excluded    map[string]uint64      `json:"excluded_known"`
	Violations  []Violation            `json:"violations"`
	Inconcl     map[string]uint64      `json:"inconclusive"`
	Extra       map[string]interface{} `json:"extra"`
	WallS       float64                `json:"wall_s"`
	Done        bool                   `json:"done"`
}

func (r *Rec) write(done bool) {
	if r.cfg.OutDir == "" {
		return
	}
	r.mu.Lock()
	o := shardOut{ID: r.cfg.ID, Shard: r.cfg.Shard, Evaluations: r.Evaluations, Classes: r.Classes,
		DistinctAdd: r.DistinctAdd, Samples: r.Samples, Excluded: r.Excluded, Violations: r.Violations,
		Inconcl: r.Inconcl, Extra: r.Extra, WallS: time.Since(r.start).Seconds(), Done: done}
	for h := range r.hashes {
		o.Hashes = append(o.Hashes, h)
	}
	sort.Slice(o.Hashes, func(i, j int) bool { return o.Hashes[i] < o.Hashes[j] })
	b, _ := json.Marshal(o)
	r.mu.Unlock()
	tmp := filepath.Join(r.cfg.OutDir, fmt.Sprintf(".shard-%d.tmp", r.cfg.Shard))
	os.WriteFile(tmp, b, 0o644)
	os.Rename(tmp, filepath.Join(r.cfg.OutDir, fmt.Sprintf("shard-%d.json", r.cfg.Shard)))
}

// Flush writes an intermediate statistics file.
func (r *Rec) Flush() { r.write(false) }

// Finish writes the final statistics file and fails the test if violations were recorded.
func (r *Rec) Finish(t *testing.T) {
	r.write(true)
	if n := r.NViolations(); n > 0 {
		t.Errorf("%d violation(s) recorded", n)
	}
}

// Safe runs f and converts a panic into an error string with a stack.
func Safe(f func()) (panicked bool, msg string) {
	defer func() {
		if e := recover(); e != nil {
			panicked = true
			msg = fmt.Sprintf("panic: %v\n%s", e, trimStack(debug.Stack()))
		}
	}()
	f()
	return false, ""
}

func trimStack(b []byte) string {
	// drop the frames of debug.Stack, the recover closure and panic itself
	s := string(b)
	if i := strings.Index(s, "\npanic("); i >= 0 {
		rest := s[i+1:]
		// skip the two lines of the panic frame
		for k := 0; k < 2; k++ {
			if j := strings.IndexByte(rest, '\n'); j >= 0 {
				rest = rest[j+1:]
			}
		}
		s = rest
	}
	lines := strings.Split(s, "\n")
	if len(lines) > 12 {
		lines = lines[:12]
	}
	return strings.Join(lines, "\n")
}

// LoadReplay reads a replay file into v.
func LoadReplay(path string, v interface{}) (ReplayFile, error) {
	var rf ReplayFile
	b, err := os.ReadFile(path)
	if err != nil {
		return rf, err
	}
	if err := json.Unmarshal(b, &rf); err != nil {
		return rf, err
	}
	return rf, json.Unmarshal(rf.Case, v)
}

// RegressFiles lists the committed regress cases of this property.
func (c *Cfg) RegressFiles() []string {
	m, _ := filepath.Glob(filepath.Join(c.Root, "harness", "regress", c.ID, "*.json"))
	sort.Strings(m)
	return m
}

// Scratch returns a fresh scratch directory (tmpfs if available).
func Scratch(prefix string) string {
	base := "/dev/shm"
	if st, err := os.Stat(base); err != nil || !st.IsDir() {
		base = os.TempDir()
	}
	// processes that are killed rather than left to finish (fuzz workers) get a parent-owned scratch area
	if b := os.Getenv("VERIF_SCRATCH_BASE"); b != "" {
		if st, err := os.Stat(b); err == nil && st.IsDir() {
			base = b
		}
	}
	d, err := os.MkdirTemp(base, "verif-"+prefix+"-")
	if err != nil {
		d, err = os.MkdirTemp("", "verif-"+prefix+"-")
		if err != nil {
			panic(err)
		}
	}
	return d
}

// RunTestAs re-executes this test binary with -test.run=^<testName>$ under another uid/gid (dropped privileges) and
// returns the text after the marker "REPLY " on its output, or ok=false when that was not possible here.
func RunTestAs(uid uint32, testName string, env ...string) (reply string, ok bool) {
	if os.Geteuid() != 0 {
		return "", false
	}
	cmd := exec.Command(os.Args[0], "-test.run", "^"+testName+"$", "-test.v")
	cmd.Env = append(os.Environ(), env...)
	cmd.SysProcAttr = &syscall.SysProcAttr{Credential: &syscall.Credential{Uid: uid, Gid: uid}}
	cmd.Dir = "/"
	out, _ := cmd.CombinedOutput()
	i := strings.Index(string(out), "REPLY ")
	if i < 0 {
		return "", false
	}
	line := string(out[i+6:])
	if j := strings.IndexByte(line, '\n'); j >= 0 {
		line = line[:j]
	}
	return line, true
}
