package run

// Support for the coverage-guided stage (native go fuzzing) of the thorough tier.
//
// A fuzz target is a function `oracle(data []byte) (msg string, class string, nontrivial bool)` wrapped by Fuzz.
// The driver (bin/check) runs the instrumented test binary with -test.fuzz; a failing (and minimised) input is
// the Go corpus file the fuzzer writes; the driver embeds that file in a replay JSON whose case is
// {"fuzz": "<target>", "corpus": "<text of the corpus file>"} and TestCheck replays it through ReplayFuzz.

import (
	"encoding/json"
	"fmt"
	"os"
	"path/filepath"
	"strconv"
	"strings"
	"sync"
	"syscall"
	"testing"
	"time"

	"pgregory.net/rapid"
)

// FuzzCase is the case part of a replay file produced by the fuzz stage.
type FuzzCase struct {
	Fuzz   string `json:"fuzz"`
	Corpus string `json:"corpus"`
}

// FuzzOracle decides one input: msg != "" is a violation; key optionally names a known-finding signature;
// class labels the input for the evidence; nontrivial says whether the input reached the logic under test.
type FuzzOracle func(data []byte) (msg, key, class string, nontrivial bool)

type fuzzStats struct {
	Execs      uint64            `json:"execs"`
	NonTrivial uint64            `json:"nontrivial"`
	Excluded   map[string]uint64 `json:"excluded"`
	Classes    map[string]uint64 `json:"classes"`
	Samples    []string          `json:"samples"`
}

var (
	fzMu    sync.Mutex
	fzStats = fuzzStats{Classes: map[string]uint64{}, Excluded: map[string]uint64{}}
	fzKnown map[string]KnownEntry
	fzInit  sync.Once
)

func fuzzSetup(id string) {
	fzInit.Do(func() {
		// a fuzz worker evaluates hostile inputs in-process: bound its address space so that a runaway allocation
		// becomes a crash of this worker (reported by the fuzzing engine with the input) instead of exhausting the machine
		for _, a := range os.Args {
			if strings.HasPrefix(a, "-test.fuzzworker") {
				lim := syscall.Rlimit{Cur: 12 << 30, Max: 12 << 30}
				syscall.Setrlimit(syscall.RLIMIT_AS, &lim)
				// targets whose inputs name filesystem locations run without privileges, so that a broken
				// code under test cannot damage anything outside world-writable scratch areas
				if os.Getenv("VERIF_FUZZ_DROP") == "1" && os.Getuid() == 0 {
					syscall.Setgroups([]int{65534})
					syscall.Setgid(65534)
					syscall.Setuid(65534)
				}
			}
		}
		fzKnown = NewRec(Load(id)).known
		// the engine discards the workers' stderr: keep it, so that an unrecoverable crash of a worker (fatal error,
		// panic in a goroutine of the code under test) can be attributed by the driver
		if dir := os.Getenv("VERIF_FUZZ_OUT"); dir != "" && isFuzzWorker() {
			if f, err := os.OpenFile(filepath.Join(dir, fmt.Sprintf("stderr-%d.log", os.Getpid())), os.O_CREATE|os.O_WRONLY|os.O_APPEND, 0o644); err == nil {
				syscall.Dup2(int(f.Fd()), 2)
			}
		}
	})
}

func isFuzzWorker() bool {
	for _, a := range os.Args {
		if strings.HasPrefix(a, "-test.fuzzworker") {
			return true
		}
	}
	return false
}

// fuzzCurrent records the input that is about to be executed (see fuzzSetup: crash attribution).
func fuzzCurrent(data []byte) {
	if dir := os.Getenv("VERIF_FUZZ_OUT"); dir != "" {
		os.WriteFile(filepath.Join(dir, fmt.Sprintf("current-%d.corpus", os.Getpid())), []byte(CorpusText(data)), 0o644)
	}
}

func fuzzFlush() {
	dir := os.Getenv("VERIF_FUZZ_OUT")
	if dir == "" {
		return
	}
	b, _ := json.Marshal(&fzStats)
	tmp := filepath.Join(dir, fmt.Sprintf(".stats-%d.tmp", os.Getpid()))
	if os.WriteFile(tmp, b, 0o644) == nil {
		os.Rename(tmp, filepath.Join(dir, fmt.Sprintf("stats-%d.json", os.Getpid())))
	}
}

// Fuzz registers oracle as the body of a native fuzz target of property id.
func Fuzz(f *testing.F, id string, oracle FuzzOracle, sample func(data []byte) string) {
	f.Fuzz(func(t *testing.T, data []byte) {
		fuzzSetup(id)
		fuzzCurrent(data)
		// a watchdog: an input on which the code under test does not terminate is reported through a marker file
		// (the driver reports it as inconclusive), and the worker exits so that the campaign continues
		done := make(chan struct{})
		go func() {
			select {
			case <-done:
			case <-time.After(time.Duration(envInt("VERIF_FUZZ_WATCHDOG", 120)) * time.Second):
				if dir := os.Getenv("VERIF_FUZZ_OUT"); dir != "" {
					os.WriteFile(filepath.Join(dir, fmt.Sprintf("hang-%d.txt", os.Getpid())), []byte(strconv.Quote(string(data))), 0o644)
				}
				os.Exit(97)
			}
		}()
		msg, key, class, nontrivial := oracle(data)
		close(done)
		fzMu.Lock()
		fzStats.Execs++
		if class != "" {
			fzStats.Classes[class]++
		}
		if nontrivial {
			fzStats.NonTrivial++
			if n := fzStats.NonTrivial; sample != nil && (n == 1 || n == 50 || n == 2000) && len(fzStats.Samples) < 3 {
				fzStats.Samples = append(fzStats.Samples, sample(data))
			}
		}
		excluded := false
		if msg != "" && key != "" {
			if e, ok := fzKnown[id+"/"+key]; ok && e.Status == "open" {
				fzStats.Excluded[key]++
				excluded = true
			}
		}
		if fzStats.Execs%200 == 1 || msg != "" {
			fuzzFlush()
		}
		fzMu.Unlock()
		if msg != "" && !excluded {
			// keep the failing input ourselves as well: a failing seed (f.Add) entry is not written out by the engine
			if dir := os.Getenv("VERIF_FUZZ_OUT"); dir != "" {
				os.WriteFile(filepath.Join(dir, fmt.Sprintf("fail-%08d-%x.corpus", len(data), Hash64(string(data)))), []byte(CorpusText(data)), 0o644)
			}
			t.Fatalf("%s", msg)
		}
	})
}

// ParseCorpus extracts the []byte argument from the text of a Go fuzz corpus file ("go test fuzz v1\n[]byte(\"...\")\n").
func ParseCorpus(text string) ([]byte, error) {
	lines := strings.Split(strings.ReplaceAll(text, "\r\n", "\n"), "\n")
	if len(lines) < 2 || !strings.HasPrefix(lines[0], "go test fuzz v1") {
		return nil, fmt.Errorf("not a go fuzz corpus file")
	}
	l := strings.TrimSpace(lines[1])
	if !strings.HasPrefix(l, "[]byte(") || !strings.HasSuffix(l, ")") {
		return nil, fmt.Errorf("unsupported corpus value %q", l)
	}
	s, err := strconv.Unquote(l[len("[]byte(") : len(l)-1])
	if err != nil {
		return nil, err
	}
	return []byte(s), nil
}

// CorpusText renders data as a Go fuzz corpus file.
func CorpusText(data []byte) string {
	return "go test fuzz v1\n[]byte(" + strconv.Quote(string(data)) + ")\n"
}

// ReplayFuzz handles a replay (or regress) file whose case is a FuzzCase: it returns handled=false when the
// file is not one.  A failure is recorded through rec.Fail.
func (r *Rec) ReplayFuzz(path string, oracles map[string]FuzzOracle) (handled bool) {
	var fc FuzzCase
	if _, err := LoadReplay(path, &fc); err != nil || fc.Fuzz == "" {
		return false
	}
	o, ok := oracles[fc.Fuzz]
	if !ok {
		return false
	}
	data, err := ParseCorpus(fc.Corpus)
	if err != nil {
		return false
	}
	r.Eval()
	msg, key, _, _ := o(data)
	if msg != "" {
		r.Fail("fuzz-"+fc.Fuzz, fc, key, msg)
	}
	return true
}

// RapidVerdict is what a rapid-driven fuzz property reports about the case it drew.
type RapidVerdict struct {
	Case       interface{} // the structured case (becomes the replay file when Msg != "")
	Kind       string      // replay kind
	Msg        string      // non-empty: violation
	Key        string      // known-finding signature, if any
	Class      string
	NonTrivial bool
}

// FuzzRapid registers a native fuzz target whose input bytes drive the draws of a rapid generator
// (rapid.MakeFuzz): the property's own generator becomes coverage-guided.  A failing case is written as an
// ordinary structured replay file, so that replaying it needs neither the fuzzing engine nor rapid.
func FuzzRapid(f *testing.F, id string, prop func(*rapid.T) RapidVerdict) {
	fn := rapid.MakeFuzz(func(rt *rapid.T) {
		v := prop(rt)
		fzMu.Lock()
		fzStats.Execs++
		if v.Class != "" {
			fzStats.Classes[v.Class]++
		}
		if v.NonTrivial {
			fzStats.NonTrivial++
			if n := fzStats.NonTrivial; (n == 1 || n == 50 || n == 2000) && len(fzStats.Samples) < 3 {
				if b, err := json.Marshal(v.Case); err == nil && len(b) < 4000 {
					fzStats.Samples = append(fzStats.Samples, string(b))
				}
			}
		}
		excluded := false
		if v.Msg != "" && v.Key != "" {
			if e, ok := fzKnown[id+"/"+v.Key]; ok && e.Status == "open" {
				fzStats.Excluded[v.Key]++
				excluded = true
			}
		}
		if fzStats.Execs%200 == 1 || v.Msg != "" {
			fuzzFlush()
		}
		fzMu.Unlock()
		if v.Msg != "" && !excluded {
			if dir := os.Getenv("VERIF_FUZZ_OUT"); dir != "" {
				b, _ := json.Marshal(v.Case)
				rf := ReplayFile{Property: id, Kind: v.Kind, Msg: v.Msg, Case: b}
				out, _ := json.MarshalIndent(rf, "", " ")
				os.WriteFile(filepath.Join(dir, fmt.Sprintf("case-%08d-%x.json", len(b), Hash64(v.Case))), out, 0o644)
			}
			rt.Fatalf("%s", v.Msg)
		}
	})
	f.Fuzz(func(t *testing.T, data []byte) {
		fuzzSetup(id)
		fuzzCurrent(data)
		done := make(chan struct{})
		go func() {
			select {
			case <-done:
			case <-time.After(time.Duration(envInt("VERIF_FUZZ_WATCHDOG", 120)) * time.Second):
				if dir := os.Getenv("VERIF_FUZZ_OUT"); dir != "" {
					os.WriteFile(filepath.Join(dir, fmt.Sprintf("hang-%d.txt", os.Getpid())), []byte(strconv.Quote(string(data))), 0o644)
				}
				os.Exit(97)
			}
		}()
		defer close(done)
		fn(t, data)
	})
}

// ReplayFuzzRapid handles a replay file that holds the raw corpus bytes of a rapid-driven fuzz target (written by the
// driver when the fuzzing engine reported a crash of the worker process itself, so that no structured case was saved).
func (r *Rec) ReplayFuzzRapid(t *testing.T, path string, props map[string]func(*rapid.T) RapidVerdict) (handled bool) {
	var fc FuzzCase
	if _, err := LoadReplay(path, &fc); err != nil || fc.Fuzz == "" {
		return false
	}
	prop, ok := props[fc.Fuzz]
	if !ok {
		return false
	}
	data, err := ParseCorpus(fc.Corpus)
	if err != nil {
		return false
	}
	r.Eval()
	var got RapidVerdict
	t.Run("replay", func(st *testing.T) {
		rapid.MakeFuzz(func(rt *rapid.T) {
			v := prop(rt)
			if v.Msg != "" {
				got = v
			}
		})(st, data)
	})
	if got.Msg != "" {
		r.Fail("fuzz-"+fc.Fuzz, fc, got.Key, got.Msg)
	}
	return true
}
