package scen

import (
	"hash/crc32"
	"testing"
)

func TestForgeCRC(t *testing.T) {
	for n := 8; n < 40; n++ {
		w := make([]byte, n)
		for i := range w {
			w[i] = byte(i*37 + n)
		}
		q := append([]byte{}, w...)
		q[0] ^= 0x5a
		ForgeCRC(q, crc32.ChecksumIEEE(w))
		if crc32.ChecksumIEEE(q) != crc32.ChecksumIEEE(w) || string(q) == string(w) {
			t.Fatalf("forge failed for n=%d", n)
		}
	}
}
