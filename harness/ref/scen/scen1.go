package scen

import (
	"bytes"
	"fmt"
	"os"
	"path/filepath"
	"sort"
	"strings"

	"github.com/akalin/gopar/par1"
	"pgregory.net/rapid"
	"verifharness/ref/fsx"
	"verifharness/ref/par1ref"
	"verifharness/ref/run"
)

// Case1 is a PAR1 scenario.
type Case1 struct {
	Files       []FileSpec `json:"files"` // Size 0 allowed; Kind as for PAR2 (slice-shaped kinds use S=64)
	NVol        int        `json:"nvol"`
	Damage      []Damage   `json:"damage"`
	DelVols     []int      `json:"del_vols,omitempty"` // 1-based volume numbers to delete
	VerifyAll   bool       `json:"verify_all"`
	DoubleCheck bool       `json:"double_check"`
	Bystanders  bool       `json:"bystanders,omitempty"`
	CorruptVol  int        `json:"corrupt_vol,omitempty"` // 1-based volume number whose byte is flipped (0 = none)
	DirName     string     `json:"dir_name,omitempty"`    // directory holding the set (default "w")
	Base        string     `json:"base,omitempty"`        // index base name (default "set")
}

// Obs1 is what Run1 observed.
type Obs1 struct {
	dirName    string
	base       string
	Dir        string
	Names      []string
	Originals  map[string][]byte
	CreateErr  error
	CreatePan  string
	Outputs    map[string][]byte
	Damaged    map[string][]byte
	Vols       []int // present volume numbers after deletion (sorted)
	PreVerify  fsx.Snap
	VerifyRes  par1.VerifyResult
	VerifyErr  error
	VerifyPan  string
	VerifyDiff []fsx.Change
	PreRepair  fsx.Snap
	RepairRes  par1.RepairResult
	RepairErr  error
	RepairPan  string
	RepairDiff []fsx.Change
	Final      fsx.Snap
	Unusable   []int // indices (list order) of data files that are missing or differ
}

// Close removes the scratch directory.
func (o *Obs1) Close() { os.RemoveAll(o.Dir) }

// WorkDir is the directory of the set.
func (o *Obs1) WorkDir() string { return filepath.Join(o.Dir, o.dirName) }

// AllOriginal reports whether all protected files equal their originals in snap.
func (o *Obs1) AllOriginal(snap fsx.Snap) (bool, string) {
	for n, d := range o.Originals {
		e, ok := snap[n]
		if !ok {
			return false, n + " is missing"
		}
		if !bytes.Equal(e.Data, d) {
			return false, fmt.Sprintf("%q differs from its original", n)
		}
	}
	return true, ""
}

// Run1 executes a PAR1 scenario.
func Run1(c Case1, skipRepair bool) *Obs1 {
	o := &Obs1{Originals: map[string][]byte{}, Outputs: map[string][]byte{}}
	o.Dir = run.Scratch("scen1")
	o.dirName, o.base = "w", "set"
	if c.DirName != "" {
		o.dirName = c.DirName
	}
	if c.Base != "" {
		o.base = c.Base
	}
	dir := filepath.Join(o.Dir, o.dirName)
	os.MkdirAll(dir, 0o755)
	for _, f := range c.Files {
		o.Originals[f.Name] = f.Content(64)
		o.Names = append(o.Names, f.Name)
	}
	fsx.WriteTree(dir, o.Originals)
	if c.Bystanders {
		fsx.WriteTree(dir, map[string][]byte{"unrelated.txt": []byte("bystander"), "other.p01": []byte("not a volume of this set"), "notes/x.md": []byte("x"), "set.par.bak": []byte("bak")})
	}
	before, _ := fsx.Take(dir)
	var paths []string
	for _, n := range o.Names {
		paths = append(paths, filepath.Join(dir, n))
	}
	idx := filepath.Join(dir, o.base+".par")
	var err error
	if p, msg := run.Safe(func() { err = par1.Create(idx, paths, par1.CreateOptions{NumParityFiles: c.NVol}) }); p {
		o.CreatePan = msg
		return o
	}
	o.CreateErr = err
	after, _ := fsx.Take(dir)
	for _, ch := range fsx.Diff(before, after) {
		if ch.Kind == "created" {
			o.Outputs[ch.Path] = after[ch.Path].Data
		} else {
			o.Outputs["!"+ch.Kind+":"+ch.Path] = nil
		}
	}
	if err != nil {
		return o
	}
	state := map[string][]byte{}
	for n, d := range o.Originals {
		state[n] = d
	}
	for _, d := range c.Damage {
		d.Apply(o.Names, state)
	}
	for i, n := range o.Names {
		p := filepath.Join(dir, n)
		d, ok := state[n]
		if ok {
			if !bytes.Equal(d, o.Originals[n]) {
				os.WriteFile(p, d, 0o644)
			}
		} else {
			os.Remove(p)
		}
		if !ok || !bytes.Equal(d, o.Originals[n]) {
			o.Unusable = append(o.Unusable, i)
		}
	}
	o.Damaged = state
	del := map[int]bool{}
	for _, v := range c.DelVols {
		del[v] = true
	}
	for v := 1; v <= c.NVol; v++ {
		p := filepath.Join(dir, fmt.Sprintf("%s.p%02d", o.base, v))
		if del[v] {
			os.Remove(p)
			continue
		}
		if c.CorruptVol == v {
			b, _ := os.ReadFile(p)
			if len(b) > 0 {
				b[len(b)-1] ^= 0x10
				os.WriteFile(p, b, 0o644)
			}
		}
		o.Vols = append(o.Vols, v)
	}
	sort.Ints(o.Vols)
	fsx.StampTree(dir)
	o.PreVerify, _ = fsx.Take(dir)
	if p, msg := run.Safe(func() { o.VerifyRes, o.VerifyErr = par1.Verify(idx, par1.VerifyOptions{VerifyAllData: c.VerifyAll}) }); p {
		o.VerifyPan = msg
	}
	mid, _ := fsx.Take(dir)
	o.VerifyDiff = fsx.Diff(o.PreVerify, mid)
	if skipRepair {
		o.Final = mid
		return o
	}
	fsx.StampTree(dir)
	o.PreRepair, _ = fsx.Take(dir)
	if p, msg := run.Safe(func() { o.RepairRes, o.RepairErr = par1.Repair(idx, par1.RepairOptions{DoubleCheck: c.DoubleCheck}) }); p {
		o.RepairPan = msg
	}
	o.Final, _ = fsx.Take(dir)
	o.RepairDiff = fsx.Diff(o.PreRepair, o.Final)
	return o
}

// Predict1 returns the expected Repair outcome for the observation: ok | notenough | singular | nothing.
func (o *Obs1) Predict1() string {
	if len(o.Unusable) == 0 {
		return "nothing"
	}
	enough, nonsing := par1ref.Solvable(o.Unusable, o.Vols)
	if !enough {
		return "notenough"
	}
	if !nonsing {
		return "singular"
	}
	return "ok"
}

// Bases1 are PAR1 index base names, including names that contain ".par" before the extension.
var Bases1 = []string{"", "", "", "backup.part1", "x.par", "my.params", "a b"}

var names1 = []string{"a.dat", "repl\uFFFDchar.txt", "b file.bin", "ünïcode.txt", "日本語ファイル.bin", "emoji-😀-name", "𝔘𝔫𝔦.𝔡𝔞𝔱", "UPPER.DAT", "k.k.k", "Ωmega", "x (1).y", "тест.док", "g",
	// a leading U+FEFF (a legal file-name character, not a byte order mark), and non-BMP characters whose surrogate pair
	// sits at UTF-16 code units 63/64 and 127/128 of a long name
	"x一.txt", "a☀b", "aux.c", "nul", "Com7.log", "...", "..draft.bin", "\U00100000x", "p\U0010FFFF.bin", "a\ue000b.dat", strings.Repeat("w", 230) + ".txt", "\uFEFFbom-first.txt", strings.Repeat("n", 63) + "😀.bin", strings.Repeat("m", 127) + "𝔘x"}

// GenFiles1 draws a PAR1 file set (empty files allowed next to non-empty ones).
func GenFiles1(t *rapid.T, maxFiles, maxBytes int) []FileSpec {
	n := rapid.IntRange(1, maxFiles).Draw(t, "nfiles")
	var names []string
	if n <= len(names1) {
		names = withSiblings(t, rapid.Permutation(names1).Draw(t, "names")[:n])
	} else {
		names = append([]string{}, names1...)
		for i := len(names1); i < n; i++ {
			names = append(names, fmt.Sprintf("file%03d.bin", i))
		}
	}
	var out []FileSpec
	nonEmpty := false
	for i := 0; i < n; i++ {
		var sz int
		switch rapid.IntRange(0, 6).Draw(t, "sizeclass") {
		case 0:
			sz = 0
		case 1:
			sz = 1
		case 2:
			sz = 16384 + rapid.IntRange(-1, 1).Draw(t, "d")
		case 3:
			if maxBytes > 16385 {
				sz = rapid.IntRange(16385, maxBytes).Draw(t, "big")
			} else {
				sz = rapid.IntRange(1, maxBytes).Draw(t, "big")
			}
		default:
			sz = rapid.IntRange(1, 300).Draw(t, "small")
		}
		if sz > maxBytes {
			sz = maxBytes
		}
		if sz > 0 {
			nonEmpty = true
		}
		out = append(out, FileSpec{Name: names[i], Size: sz, Kind: rapid.SampledFrom([]string{"random", "random", "alpha", "zerotail"}).Draw(t, "kind"), Seed: rapid.Uint64Range(0, 1<<20).Draw(t, "fseed")})
	}
	if !nonEmpty {
		out[0].Size = 1 + int(out[0].Seed%50)
	}
	return out
}
