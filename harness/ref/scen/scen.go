// Package scen describes archive scenarios as data (file sets, damage
// scripts), generates them with rapid, and runs them against gopar on a real
// directory, returning everything that was observed.
package scen

import (
	"bytes"
	"crypto/md5"
	"encoding/binary"
	"encoding/hex"
	"fmt"
	"hash/crc32"
	"os"
	"path/filepath"
	"runtime"
	"sort"
	"strings"

	"github.com/akalin/gopar/par2"
	"pgregory.net/rapid"
	"verifharness/ref/fsx"
	"verifharness/ref/model"
	"verifharness/ref/par2ref"
	"verifharness/ref/run"
)

// FileSpec describes one input file deterministically.
type FileSpec struct {
	Name string `json:"name"`
	Size int    `json:"size"`
	Kind string `json:"kind"` // random | alpha | repeat | zerotail | zeroshead | slicezeros
	Seed uint64 `json:"seed"`
}

func xs(s *uint64) uint64 {
	x := *s
	x ^= x << 13
	x ^= x >> 7
	x ^= x << 17
	*s = x
	return x
}

// Content generates the file's bytes (S = slice size, used by slice-shaped kinds).
func (f FileSpec) Content(S int) []byte {
	b := make([]byte, f.Size)
	s := f.Seed*0x9E3779B97F4A7C15 + 0x1234567
	if s == 0 {
		s = 1
	}
	switch f.Kind {
	case "alpha":
		na := 1 + int(f.Seed%3)
		al := []byte{byte('a' + f.Seed%7), byte('k' + f.Seed%5), 0}
		for i := range b {
			b[i] = al[int(xs(&s)>>20)%na]
		}
	case "repeat":
		// one block of S bytes (function of Seed%4 only => duplicates across files), repeated
		bs := uint64(f.Seed%4) + 77
		blk := make([]byte, S)
		for i := range blk {
			blk[i] = byte(xs(&bs) >> 17)
		}
		for i := range b {
			b[i] = blk[i%S]
		}
		// make some slices differ so that not everything is a duplicate
		if f.Size > 2*S && f.Seed%2 == 0 {
			for i := S; i < 2*S && i < len(b); i++ {
				b[i] = byte(xs(&s) >> 9)
			}
		}
	case "zerotail":
		for i := range b {
			b[i] = byte(xs(&s) >> 11)
		}
		z := 1 + int(f.Seed%uint64(S+1))
		for i := len(b) - z; i < len(b); i++ {
			if i >= 0 {
				b[i] = 0
			}
		}
		if len(b) > 0 && len(b)-z-1 >= 0 {
			b[len(b)-z-1] |= 1
		}
	case "zeroshead":
		t := 1 + int(f.Seed%5)
		for i := len(b) - t; i < len(b); i++ {
			if i >= 0 {
				b[i] = byte(xs(&s)>>9) | 1
			}
		}
	case "slicezeros":
		for i := range b {
			if i%S < S/2 {
				b[i] = byte(xs(&s) >> 13)
			}
		}
	case "crctwin":
		for i := range b {
			b[i] = byte(xs(&s) >> 7)
		}
		// every odd slice is a CRC-32 twin of the slice before it: different bytes, same CRC-32 (needs S >= 8)
		if S >= 8 {
			for o := 0; o+2*S <= len(b); o += 2 * S {
				tw := append([]byte{}, b[o:o+S]...)
				tw[0] ^= byte(1 + f.Seed%200)
				tw[S/2] ^= 0x55
				ForgeCRC(tw, crc32.ChecksumIEEE(b[o:o+S]))
				copy(b[o+S:], tw)
			}
		}
	case "crczero":
		// slices whose CRC-32 takes the extreme values: every third full slice has CRC-32 0, the one after it 0xFFFFFFFF (needs S >= 8)
		for i := range b {
			b[i] = byte(xs(&s) >> 7)
		}
		if S >= 8 {
			for k, o := 0, 0; o+S <= len(b); k, o = k+1, o+S {
				switch k % 3 {
				case 0:
					ForgeCRC(b[o:o+S], 0)
				case 1:
					ForgeCRC(b[o:o+S], 0xFFFFFFFF)
				}
			}
		}
	case "halfzero":
		// random first half, all-zero second half (sparse tails: disk images, preallocated files)
		for i := 0; i < len(b)/2; i++ {
			b[i] = byte(xs(&s) >> 7)
		}
		if len(b) > 0 {
			b[0] |= 1
		}
	case "par2magic":
		// a file that itself looks like a PAR2 file: it starts with the packet magic
		for i := range b {
			b[i] = byte(xs(&s) >> 7)
		}
		copy(b, "PAR2\x00PKT")
	case "crcwindow":
		// a window that is not a slice has the CRC-32 of a slice: the S bytes at offset d = 1 + Seed%2 have the
		// CRC-32 of the last full slice (needs S >= 8 and at least three full slices)
		for i := range b {
			b[i] = byte(xs(&s) >> 7)
		}
		if nfull := len(b) / S; S >= 8 && nfull >= 3 {
			d := 1 + int(f.Seed%2)
			ForgeCRC(b[(nfull-1)*S:nfull*S], crc32.ChecksumIEEE(b[d:d+S]))
		}
	case "md5a", "md5b":
		// two different 128-byte blocks with the same MD5 (the published collision of Wang et al.), followed by a tail that
		// depends only on the seed: files of kinds md5a and md5b with equal size and seed have the same MD5 and the same
		// first-16-KiB hash, but differ in six bits (their CRC-32 differs)
		for i := range b {
			b[i] = byte(xs(&s) >> 7)
		}
		blk := MD5CollisionA
		if f.Kind == "md5b" {
			blk = MD5CollisionB
		}
		copy(b, blk)
	case "zeros":
		// all bytes zero: every full slice is the same slice
	case "share16k":
		// the first 16 KiB depend only on Seed%3 (shared between files), the tail on the whole seed
		ps := uint64(f.Seed%3) + 1234567
		for i := range b {
			if i < 16384 {
				b[i] = byte(xs(&ps) >> 9)
			} else {
				b[i] = byte(xs(&s) >> 7)
			}
		}
	default: // random
		for i := range b {
			b[i] = byte(xs(&s) >> 7)
		}
	}
	return b
}

// Damage is one step of a damage script.
type Damage struct {
	Op    string `json:"op"` // delete overwrite flip insert remove truncate append appendzeros trimzeros swap copy
	File  int    `json:"file"`
	Other int    `json:"other,omitempty"`
	Off   int    `json:"off,omitempty"` // position in permille-free absolute bytes (clamped)
	Len   int    `json:"len,omitempty"`
	Seed  uint64 `json:"seed,omitempty"`
}

// Apply performs the damage on state (name -> content; missing = absent key).
func (d Damage) Apply(names []string, state map[string][]byte) {
	if len(names) == 0 {
		return
	}
	name := names[d.File%len(names)]
	cur, ok := state[name]
	s := d.Seed*2654435761 + 99
	if s == 0 {
		s = 5
	}
	rnd := func(n int) []byte {
		b := make([]byte, n)
		for i := range b {
			b[i] = byte(xs(&s) >> 15)
		}
		return b
	}
	clamp := func(v, hi int) int {
		if v < 0 {
			return 0
		}
		if v > hi {
			return hi
		}
		return v
	}
	switch d.Op {
	case "delete":
		delete(state, name)
		return
	case "swap":
		o := names[d.Other%len(names)]
		a, aok := state[name]
		b, bok := state[o]
		if aok {
			state[o] = a
		} else {
			delete(state, o)
		}
		if bok {
			state[name] = b
		} else {
			delete(state, name)
		}
		return
	case "catonto":
		// "cat F G > F; rm G": the other file's content is appended to this file and the other file is lost
		o := names[d.Other%len(names)]
		if b, bok := state[o]; ok && bok && o != name {
			state[name] = append(append([]byte{}, cur...), b...)
			delete(state, o)
		}
		return
	case "copy":
		o := names[d.Other%len(names)]
		if ok {
			state[o] = append([]byte{}, cur...)
		}
		return
	case "move":
		// the file turns up under another protected name; its own name is gone
		o := names[d.Other%len(names)]
		if ok && o != name {
			state[o] = append([]byte{}, cur...)
			delete(state, name)
		}
		return
	}
	if !ok {
		return
	}
	cur = append([]byte{}, cur...)
	switch d.Op {
	case "overwrite":
		off := clamp(d.Off, len(cur))
		n := clamp(d.Len, len(cur)-off)
		copy(cur[off:], rnd(n))
	case "flip":
		if len(cur) > 0 {
			off := clamp(d.Off, len(cur)-1)
			cur[off] ^= 1 << (d.Seed % 8)
		}
	case "insert":
		off := clamp(d.Off, len(cur))
		ins := rnd(d.Len)
		cur = append(cur[:off:off], append(ins, cur[off:]...)...)
	case "remove":
		off := clamp(d.Off, len(cur))
		n := clamp(d.Len, len(cur)-off)
		cur = append(cur[:off:off], cur[off+n:]...)
	case "truncate":
		cur = cur[:clamp(d.Off, len(cur))]
	case "append":
		cur = append(cur, rnd(d.Len)...)
	case "appendzeros":
		cur = append(cur, make([]byte, d.Len)...)
	case "slide":
		off := clamp(d.Off, len(cur))
		n := clamp(d.Len, len(cur)-off)
		cur = append(cur[:off:off], cur[off+n:]...)
		at := clamp(d.Other, len(cur))
		ins := rnd(n)
		cur = append(cur[:at:at], append(ins, cur[at:]...)...)
	case "md5twin":
		// a file that starts with one of the two colliding blocks gets the other one (six bit flips; same length, same MD5)
		if len(cur) >= 128 {
			if bytes.Equal(cur[:128], MD5CollisionA) {
				copy(cur, MD5CollisionB)
			} else if bytes.Equal(cur[:128], MD5CollisionB) {
				copy(cur, MD5CollisionA)
			} else {
				cur[0] ^= 1
			}
		}
	case "crcforge":
		// replace the window [Off, Off+Len) by different bytes with the same CRC-32 (Len >= 8)
		off := d.Off
		if d.Len >= 8 && off >= 0 && off+d.Len <= len(cur) {
			w := cur[off : off+d.Len]
			q := append([]byte{}, w...)
			q[0] ^= byte(1 + d.Seed%255)
			q[1] ^= byte(d.Seed >> 8)
			ForgeCRC(q, crc32.ChecksumIEEE(w))
			copy(cur[off:], q)
		} else if len(cur) > 0 {
			cur[clamp(off, len(cur)-1)] ^= 0x41
		}
	case "trimzeros":
		for len(cur) > 0 && cur[len(cur)-1] == 0 {
			cur = cur[:len(cur)-1]
		}
	}
	state[name] = cur
}

// Case is a PAR2 scenario.
type Case struct {
	Files        []FileSpec `json:"files"`
	Slice        int        `json:"slice"`
	NRec         int        `json:"nrec"`
	GCreate      int        `json:"g_create"`
	GRepair      int        `json:"g_repair"`
	DoubleCheck  bool       `json:"double_check"`
	Damage       []Damage   `json:"damage"`
	DelVolumes   []int      `json:"del_volumes,omitempty"` // indices into the sorted list of recovery files
	Bystanders   bool       `json:"bystanders,omitempty"`
	Index        string     `json:"index,omitempty"`          // index file name, default "set.par2"
	ForeignVol   bool       `json:"foreign_vol,omitempty"`    // a volume of another recovery set named <base>.zforeign.par2
	DupVol       bool       `json:"dup_vol,omitempty"`        // a copy of the first recovery file named <base>.dup.par2
	CorruptVol   int        `json:"corrupt_vol,omitempty"`    // 1+index of a recovery file in which one byte is flipped (0 = none)
	KeepVolsWith []int      `json:"keep_vols_with,omitempty"` // if set: every recovery file that holds none of these exponents is deleted
	SymlinkVols  bool       `json:"symlink_vols,omitempty"`   // the recovery files are moved to a store directory and symlinked back
	DirName      string     `json:"dir_name,omitempty"`       // name of the directory that holds the set (default "w")
	RmDirOf      int        `json:"rmdir_of,omitempty"`       // 1+index of a protected file whose sub-directory is removed altogether after the damage (its rewrite must fail)
	StaleNRec    int        `json:"stale_nrec,omitempty"`     // Create is first run with this many blocks (same set ID), leaving stale, partly overlapping volumes behind
	HighExpVol   bool       `json:"high_exp_vol,omitempty"`   // a volume written by the reference writer holds the recovery block with exponent 65535
	Procs        int        `json:"procs,omitempty"`          // GOMAXPROCS while the scenario runs (0 = unchanged); with GCreate/GRepair 0 the default goroutine count depends on it
	SiblingVols  bool       `json:"sibling_vols,omitempty"`   // recovery files replaced by those of a sibling set with the same set ID (same names, lengths, first 16 KiB; different tails)
}

// Obs is everything observed when running a Case.
type Obs struct {
	dirName    string
	Dir        string
	Originals  map[string][]byte // protected name -> original content
	Names      []string          // protected names in generation order
	CreateErr  error
	CreatePan  string
	Outputs    map[string][]byte // files written by Create (relative)
	VolFiles   []string          // recovery file names (sorted), before deletion
	PreVerify  fsx.Snap          // state after damage (stamped)
	VerifyRes  par2.VerifyResult
	VerifyErr  error
	VerifyPan  string
	VerifyDiff []fsx.Change
	PreRepair  fsx.Snap
	RepairRes  par2.RepairResult
	RepairErr  error
	RepairPan  string
	RepairDiff []fsx.Change
	Final      fsx.Snap
	Damaged    map[string][]byte // protected name -> content after damage (absent = missing)
	SurvExps   []int             // exponents in surviving recovery files
	Prot       []model.ProtFile  // recovery-set order
	Loc        model.Loc
}

// IndexName returns the index file name.
func (c Case) IndexName() string {
	if c.Index != "" {
		return c.Index
	}
	return "set.par2"
}

// ProtOrder returns the protected files in recovery-set order (ascending file ID).
func ProtOrder(orig map[string][]byte, S int) []model.ProtFile {
	set := par2ref.NewSet(S, orig)
	var out []model.ProtFile
	for _, f := range set.Files {
		out = append(out, model.ProtFile{Name: f.Name, Data: f.Data})
	}
	return out
}

// BystanderFiles are unrelated files placed beside the set.
func BystanderFiles() map[string][]byte {
	return map[string][]byte{
		"unrelated.txt":        []byte("bystander one\n"),
		"docs/notes.txt":       []byte("an unrelated file whose path is the slash spelling of a protected name with a backslash"),
		"other.vol00+01.par2":  []byte("not a par2 file at all, but the name matches another set's volume"),
		"notes/readme.md":      []byte("# notes\n"),
		"set.par2.bak":         []byte("backup-looking file"),
		"_aux.c":               []byte("unrelated file whose name is a protected name with an underscore in front"),
		"_nul":                 []byte("another one"),
		"zz_set.vol00+01.par2": []byte("PAR2\x00PKTgarbage"),
	}
}

// Run executes the scenario: create, damage, verify, repair. If skipRepair is set Repair is not run.
func Run(c Case, skipRepair bool) *Obs {
	o := &Obs{Originals: map[string][]byte{}, Outputs: map[string][]byte{}}
	if c.Procs > 0 {
		defer runtime.GOMAXPROCS(runtime.GOMAXPROCS(c.Procs))
	}
	o.Dir = run.Scratch("scen")
	o.dirName = "w"
	if c.DirName != "" {
		o.dirName = c.DirName
	}
	dir := filepath.Join(o.Dir, o.dirName)
	os.MkdirAll(dir, 0o755)
	for _, f := range c.Files {
		o.Originals[f.Name] = f.Content(c.Slice)
		o.Names = append(o.Names, f.Name)
	}
	fsx.WriteTree(dir, o.Originals)
	if c.Bystanders {
		fsx.WriteTree(dir, BystanderFiles())
	}
	before, _ := fsx.Take(dir)
	var paths []string
	for _, n := range o.Names {
		paths = append(paths, filepath.Join(dir, n))
	}
	idx := filepath.Join(dir, c.IndexName())
	var err error
	if c.StaleNRec > 0 {
		run.Safe(func() {
			par2.Create(idx, paths, par2.CreateOptions{SliceByteCount: c.Slice, NumParityShards: c.StaleNRec, NumGoroutines: 1})
		})
	}
	if p, msg := run.Safe(func() {
		err = par2.Create(idx, paths, par2.CreateOptions{SliceByteCount: c.Slice, NumParityShards: c.NRec, NumGoroutines: c.GCreate})
	}); p {
		o.CreatePan = msg
		return o
	}
	o.CreateErr = err
	after, _ := fsx.Take(dir)
	for _, ch := range fsx.Diff(before, after) {
		if ch.Kind == "created" {
			o.Outputs[ch.Path] = after[ch.Path].Data
			if ch.Path != c.IndexName() {
				o.VolFiles = append(o.VolFiles, ch.Path)
			}
		} else if c.StaleNRec > 0 {
			// impossible: 'before' was taken before both Create runs
			o.Outputs["!"+ch.Kind+":"+ch.Path] = nil
		} else {
			// Create modified or removed something: recorded as an output with nil
			o.Outputs["!"+ch.Kind+":"+ch.Path] = nil
		}
	}
	sort.Strings(o.VolFiles)
	if err != nil {
		return o
	}
	// damage
	state := map[string][]byte{}
	for n, d := range o.Originals {
		state[n] = d
	}
	for _, d := range c.Damage {
		d.Apply(o.Names, state)
	}
	for _, n := range o.Names {
		p := filepath.Join(dir, n)
		if d, ok := state[n]; ok {
			if !bytes.Equal(d, o.Originals[n]) {
				os.WriteFile(p, d, 0o644)
			}
		} else {
			os.Remove(p)
		}
	}
	if c.RmDirOf > 0 {
		n := o.Names[(c.RmDirOf-1)%len(o.Names)]
		if d := filepath.Dir(n); d != "." {
			top := strings.Split(d, "/")[0]
			os.RemoveAll(filepath.Join(dir, top))
			for _, m := range o.Names {
				if strings.HasPrefix(m, top+"/") {
					delete(state, m)
				}
			}
		}
	}
	o.Damaged = state
	del := map[int]bool{}
	for _, v := range c.DelVolumes {
		if len(o.VolFiles) > 0 {
			del[v%len(o.VolFiles)] = true
		}
	}
	if len(c.KeepVolsWith) > 0 {
		for i, v := range o.VolFiles {
			keep := false
			for _, p := range par2ref.ScanTolerant(o.Outputs[v]) {
				if p.Type == par2ref.TypeRecvSlic {
					e, _, _ := par2ref.ParseRecovery(p.Body)
					for _, w := range c.KeepVolsWith {
						if int(e) == w {
							keep = true
						}
					}
				}
			}
			if !keep {
				del[i] = true
			}
		}
	}
	for i, v := range o.VolFiles {
		if del[i] {
			os.Remove(filepath.Join(dir, v))
			continue
		}
	}
	if c.SymlinkVols {
		store := filepath.Join(o.Dir, "store")
		os.MkdirAll(store, 0o755)
		for i, v := range o.VolFiles {
			if del[i] {
				continue
			}
			if os.Rename(filepath.Join(dir, v), filepath.Join(store, v)) == nil {
				os.Symlink(filepath.Join(store, v), filepath.Join(dir, v))
			}
		}
	}
	if c.SiblingVols {
		sib := map[string][]byte{}
		differs := false
		for n, d := range o.Originals {
			e := append([]byte{}, d...)
			for i := 16384; i < len(e); i++ {
				e[i] ^= 0x55
				differs = true
			}
			sib[n] = e
		}
		if differs {
			sdir := filepath.Join(o.Dir, "sibling")
			fsx.WriteTree(sdir, sib)
			var sp []string
			for _, n := range o.Names {
				sp = append(sp, filepath.Join(sdir, n))
			}
			if par2.Create(filepath.Join(sdir, c.IndexName()), sp, par2.CreateOptions{SliceByteCount: c.Slice, NumParityShards: c.NRec, NumGoroutines: 1}) == nil {
				for _, v := range o.VolFiles {
					if b, err := os.ReadFile(filepath.Join(sdir, v)); err == nil {
						os.WriteFile(filepath.Join(dir, v), b, 0o644)
						o.Outputs[v] = b
					}
				}
			}
		}
	}
	if c.CorruptVol > 0 && len(o.VolFiles) > 0 {
		vn := o.VolFiles[(c.CorruptVol-1)%len(o.VolFiles)]
		if !del[(c.CorruptVol-1)%len(o.VolFiles)] {
			b := append([]byte{}, o.Outputs[vn]...)
			b[len(b)-3] ^= 0x04
			os.WriteFile(filepath.Join(dir, vn), b, 0o644)
		}
	}
	base := strings.TrimSuffix(c.IndexName(), ".par2")
	if c.DupVol && len(o.VolFiles) > 0 {
		os.WriteFile(filepath.Join(dir, base+".dup.par2"), o.Outputs[o.VolFiles[0]], 0o644)
	}
	if c.ForeignVol {
		// a conformant volume of a different recovery set (reference writer)
		fs := par2ref.NewSet(c.Slice, map[string][]byte{"foreign.bin": []byte("this file belongs to another recovery set....")})
		ps := append([]par2ref.Packet{fs.CreatorPacket()}, fs.CriticalPackets()...)
		ps = append(ps, fs.RecoveryPacket(0), fs.RecoveryPacket(1))
		os.WriteFile(filepath.Join(dir, base+".zforeign.par2"), par2ref.EncodeAll(ps), 0o644)
	}
	if c.HighExpVol {
		// a conformant volume of this set (reference writer) that holds the recovery block with the highest exponent the format allows
		own := par2ref.NewSet(c.Slice, o.Originals)
		if len(own.Slices()) <= 4000 {
			ps := append([]par2ref.Packet{own.CreatorPacket()}, own.CriticalPackets()...)
			ps = append(ps, own.RecoveryPacket(65535))
			os.WriteFile(filepath.Join(dir, base+".zhigh.par2"), par2ref.EncodeAll(ps), 0o644)
		}
	}
	// recovery blocks actually stored beside the index file, as seen by the reference reader
	o.SurvExps = nil
	ownID := par2ref.NewSet(c.Slice, o.Originals).SetID()
	if ents, err := os.ReadDir(dir); err == nil {
		for _, e := range ents {
			n := e.Name()
			if e.IsDir() || !strings.HasPrefix(n, base+".") || !strings.HasSuffix(n, ".par2") || n == c.IndexName() {
				continue
			}
			b, _ := os.ReadFile(filepath.Join(dir, n))
			for _, p := range par2ref.ScanTolerant(b) {
				if p.Type == par2ref.TypeRecvSlic && p.SetID == ownID {
					e, data, _ := par2ref.ParseRecovery(p.Body)
					if len(data) == c.Slice {
						o.SurvExps = append(o.SurvExps, int(e))
					}
				}
			}
		}
	}
	o.Prot = ProtOrder(o.Originals, c.Slice)
	o.Loc = model.Locate(c.Slice, o.Prot, state)

	fsx.StampTree(dir)
	o.PreVerify, _ = fsx.Take(dir)
	if p, msg := run.Safe(func() {
		o.VerifyRes, o.VerifyErr = par2.Verify(idx, par2.VerifyOptions{NumGoroutines: c.GRepair})
	}); p {
		o.VerifyPan = msg
	}
	mid, _ := fsx.Take(dir)
	o.VerifyDiff = fsx.Diff(o.PreVerify, mid)
	if skipRepair {
		o.Final = mid
		return o
	}
	fsx.StampTree(dir)
	o.PreRepair, _ = fsx.Take(dir)
	if p, msg := run.Safe(func() {
		o.RepairRes, o.RepairErr = par2.Repair(idx, par2.RepairOptions{NumGoroutines: c.GRepair, DoubleCheck: c.DoubleCheck})
	}); p {
		o.RepairPan = msg
	}
	o.Final, _ = fsx.Take(dir)
	o.RepairDiff = fsx.Diff(o.PreRepair, o.Final)
	return o
}

// Close removes the scratch directory.
func (o *Obs) Close() { os.RemoveAll(o.Dir) }

// WorkDir is the directory that holds the set.
func (o *Obs) WorkDir() string { return filepath.Join(o.Dir, o.dirName) }

// AllOriginal reports whether every protected file in snap equals its original.
func (o *Obs) AllOriginal(snap fsx.Snap) (bool, string) {
	for n, d := range o.Originals {
		e, ok := snap[n]
		if !ok {
			return false, n + " is missing"
		}
		if !bytes.Equal(e.Data, d) {
			return false, fmt.Sprintf("%s differs from its original (len %d vs %d)", n, len(e.Data), len(d))
		}
	}
	return true, ""
}

// ---------------------------------------------------------------- generators

var nameCorpus = []string{"a.dat", "b file.bin", "docs\\notes.txt", "sub/c.txt", "sub/deep dir/d", "e-1_2.tar.gz", "dir two/f.F", "g", "h~#(1).x", "sub/i.par2.txt", "J.DAT", "k.k.k", "sub2/l", "aux.c", "nul", "sub/Com7.log", "LPT1", "con.txt", "a../b.txt", "x..y/z", "sub../deep../f"}

var siblingSuffixes = []string{".tmp", "~", ".bak", ".new", ".part", ".1", ".swp", ".orig"}

// withSiblings sometimes replaces names by "temp-file style" siblings or case variants of other names of the set
// (N and N.tmp, N and its lower/upper-case spelling).
func withSiblings(t *rapid.T, names []string) []string {
	if len(names) < 2 || rapid.IntRange(0, 4).Draw(t, "siblings") != 0 {
		return names
	}
	out := append([]string{}, names...)
	k := rapid.IntRange(1, len(out)-1).Draw(t, "sibidx")
	base := out[rapid.IntRange(0, k-1).Draw(t, "sibof")]
	var cand string
	switch rapid.IntRange(0, 3).Draw(t, "sibkind") {
	case 0:
		cand = strings.ToLower(base)
	case 1:
		cand = strings.ToUpper(base)
	default:
		cand = base + rapid.SampledFrom(siblingSuffixes).Draw(t, "sibsuffix")
	}
	for _, n := range out {
		if n == cand {
			return names
		}
	}
	out[k] = cand
	return out
}

// GenNames draws n distinct protected names.
func GenNames(t *rapid.T, n int) []string {
	if n <= len(nameCorpus) {
		perm := rapid.Permutation(nameCorpus).Draw(t, "names")
		return withSiblings(t, perm[:n])
	}
	out := append([]string{}, nameCorpus...)
	for i := len(nameCorpus); i < n; i++ {
		out = append(out, fmt.Sprintf("many/f%03d.bin", i))
	}
	return out
}

var sliceChoices = []int{4, 4, 8, 8, 12, 16, 16, 64, 100, 256, 1024, 2000, 4096, 16384}

// GenSlice draws a slice size (multiple of 4).
func GenSlice(t *rapid.T) int {
	if rapid.IntRange(0, 5).Draw(t, "sliceclass") == 0 {
		return 4 * rapid.IntRange(1, 600).Draw(t, "slice4")
	}
	return rapid.SampledFrom(sliceChoices).Draw(t, "slice")
}

// GenSize draws a file size around the interesting boundaries for slice size S, bounded by maxBytes.
func GenSize(t *rapid.T, S, maxBytes int) int {
	var n int
	switch rapid.IntRange(0, 7).Draw(t, "sizeclass") {
	case 0:
		n = 1
	case 1:
		n = S + rapid.IntRange(-1, 1).Draw(t, "d")
	case 2:
		n = S*rapid.IntRange(1, 9).Draw(t, "k") + rapid.IntRange(-1, 1).Draw(t, "d")
	case 3:
		n = 16384 + rapid.IntRange(-1, 1).Draw(t, "d")
	case 4:
		n = 16384 + rapid.IntRange(1, 3*S+5).Draw(t, "delta")
	case 5:
		n = rapid.IntRange(1, maxBytes).Draw(t, "any")
	default:
		n = rapid.IntRange(1, 6*S+3).Draw(t, "small")
	}
	if n < 1 {
		n = 1
	}
	if n > maxBytes {
		n = maxBytes
	}
	return n
}

var kinds = []string{"random", "random", "random", "alpha", "repeat", "zerotail", "zeroshead", "slicezeros", "crctwin", "crczero", "par2magic", "crcwindow"}

// GenFiles draws a file set. maxSlices bounds the total number of slices.
func GenFiles(t *rapid.T, S, maxFiles, maxBytes, maxSlices int) []FileSpec {
	n := rapid.IntRange(1, maxFiles).Draw(t, "nfiles")
	names := GenNames(t, n)
	var out []FileSpec
	total := 0
	for i := 0; i < n; i++ {
		sz := GenSize(t, S, maxBytes)
		ns := (sz + S - 1) / S
		if total+ns > maxSlices {
			sz = S * (maxSlices - total)
			if sz <= 0 {
				break
			}
			ns = (sz + S - 1) / S
		}
		total += ns
		fs := FileSpec{Name: names[i], Size: sz, Kind: rapid.SampledFrom(kinds).Draw(t, "kind"), Seed: rapid.Uint64Range(0, 1<<20).Draw(t, "fseed")}
		if len(out) > 0 && rapid.IntRange(0, 6).Draw(t, "clone") == 0 {
			// an identical copy of an earlier file under another name (whole-file duplicates)
			src := out[rapid.IntRange(0, len(out)-1).Draw(t, "cloneof")]
			if total-ns+(src.Size+S-1)/S <= maxSlices {
				total += (src.Size+S-1)/S - ns
				fs.Size, fs.Kind, fs.Seed = src.Size, src.Kind, src.Seed
				if src.Size > 16384 && rapid.Bool().Draw(t, "share16k") {
					// same length and same first 16 KiB, different tail (same 16k hash and length, different file)
					for k := range out {
						if out[k].Name == src.Name {
							out[k].Kind = "share16k"
						}
					}
					fs.Kind, fs.Seed = "share16k", src.Seed+3
				}
				if rapid.IntRange(0, 2).Draw(t, "samebase") == 0 {
					// the copy carries the same base name in another directory (a flattened or an archived copy)
					cand := filepath.Base(src.Name)
					if cand == src.Name {
						cand = "old copies/" + cand
					}
					free := true
					for _, nm := range names {
						if nm == cand {
							free = false
						}
					}
					for _, o := range out {
						if o.Name == cand {
							free = false
						}
					}
					if free {
						fs.Name = cand
					}
				}
			}
		}
		out = append(out, fs)
	}
	return out
}

var damageOps = []string{"delete", "overwrite", "flip", "insert", "remove", "truncate", "append", "appendzeros", "trimzeros", "swap", "copy", "move", "crcforge", "catonto"}

// GenDamage draws a damage step for nfiles files; maxLen bounds file length, S the slice size.
func GenDamage(t *rapid.T, nfiles, maxLen, S int, ops []string) Damage {
	if ops == nil {
		ops = damageOps
	}
	d := Damage{Op: rapid.SampledFrom(ops).Draw(t, "op"), File: rapid.IntRange(0, nfiles-1).Draw(t, "file")}
	switch d.Op {
	case "swap", "copy", "move", "catonto":
		d.Other = rapid.IntRange(0, nfiles-1).Draw(t, "other")
	case "crcforge":
		d.Off = S * rapid.IntRange(0, maxLen/S).Draw(t, "sliceidx")
		d.Len = S
		d.Seed = rapid.Uint64Range(0, 1<<16).Draw(t, "dseed")
	case "overwrite", "insert", "remove":
		d.Off = rapid.OneOf(rapid.IntRange(0, maxLen), rapid.IntRange(0, 2*S), genBoundaryOff(maxLen, S)).Draw(t, "off")
		d.Len = rapid.IntRange(1, 2*S+1).Draw(t, "len")
		d.Seed = rapid.Uint64Range(0, 1<<16).Draw(t, "dseed")
	case "flip":
		d.Off = rapid.IntRange(0, maxLen).Draw(t, "off")
		d.Seed = rapid.Uint64Range(0, 7).Draw(t, "bit")
	case "truncate":
		d.Off = rapid.OneOf(rapid.IntRange(0, maxLen), genBoundaryOff(maxLen, S)).Draw(t, "off")
	case "append", "appendzeros":
		d.Len = rapid.IntRange(1, 2*S+1).Draw(t, "len")
		d.Seed = rapid.Uint64Range(0, 1<<16).Draw(t, "dseed")
	}
	return d
}

// MaxLen returns the largest file size of the set.
func MaxLen(fs []FileSpec) int {
	m := 1
	for _, f := range fs {
		if f.Size > m {
			m = f.Size
		}
	}
	return m
}

// TotalSlices returns the number of protected slices.
func TotalSlices(fs []FileSpec, S int) int {
	n := 0
	for _, f := range fs {
		n += (f.Size + S - 1) / S
	}
	return n
}

// DamageKinds lists the distinct ops used.
func DamageKinds(ds []Damage) string {
	m := map[string]bool{}
	for _, d := range ds {
		m[d.Op] = true
	}
	var k []string
	for o := range m {
		k = append(k, o)
	}
	sort.Strings(k)
	return strings.Join(k, ",")
}

// ForgeCRC overwrites the last 4 bytes of b so that crc32.ChecksumIEEE(b) == target.
func ForgeCRC(b []byte, target uint32) {
	n := len(b)
	tab := crc32.IEEETable
	// register after the prefix
	reg := ^uint32(0)
	for _, c := range b[:n-4] {
		reg = tab[byte(reg)^c] ^ (reg >> 8)
	}
	want := ^target
	// find the table indices backwards: the top byte of a table entry identifies its index
	var idx [4]int
	w := want
	for k := 3; k >= 0; k-- {
		for i := 0; i < 256; i++ {
			if tab[i]>>24 == w>>24 {
				idx[k] = i
				break
			}
		}
		w = (w ^ tab[idx[k]]) << 8
	}
	for k := 0; k < 4; k++ {
		b[n-4+k] = byte(reg) ^ byte(idx[k])
		reg = tab[idx[k]] ^ (reg >> 8)
	}
}

// genBoundaryOff draws offsets at the boundaries that matter: the 16 KiB hash prefix, slice multiples, end of file.
func genBoundaryOff(maxLen, S int) *rapid.Generator[int] {
	return rapid.Custom(func(t *rapid.T) int {
		var v int
		switch rapid.IntRange(0, 3).Draw(t, "bclass") {
		case 0:
			v = 16384 + rapid.IntRange(-1, 1).Draw(t, "d16k")
		case 1:
			v = S*rapid.IntRange(0, maxLen/S+1).Draw(t, "kS") + rapid.IntRange(-1, 1).Draw(t, "dS")
		case 2:
			v = maxLen - rapid.IntRange(0, 2).Draw(t, "fromEnd")
		default:
			v = rapid.IntRange(0, 2).Draw(t, "fromStart")
		}
		if v < 0 {
			v = 0
		}
		return v
	})
}

// DirNames are directory names for the set directory, including names that contain the archive extensions.
// IndexNames are index file names ("" = set.par2): spaces, glob metacharacters, inner dots and extensions, and base
// names that start with a dot, are empty, or are a single dot.
var IndexNames = []string{"", "", "", "", "my set.par2", "arch[1].par2", "x.y.par2", "q?.par2", "set.PAR2.par2", ".hidden.par2", ".par2", "..par2", "...par2"}

var DirNames = []string{"", "", "", "arch.par2.d", "old.parity", "x.par", "my.par2", "set.par2.vol", "d.p01"}

var idTwinCache = map[string][][2]string{}

// IDTwinFiles returns 2*pairs files with identical content whose names were searched (birthday search over generated
// names) so that the PAR2 file IDs of each pair - MD5(16k hash, length, name) - agree in their most significant 32 bits
// (bytes 12..15; the specification orders IDs as 128-bit little-endian numbers).  Ordering such a pair correctly needs
// the lower bytes of the comparison.
func IDTwinFiles(size int, seed uint64, pairs int) []FileSpec {
	proto := FileSpec{Name: "x", Size: size, Kind: "random", Seed: seed}
	content := proto.Content(4)
	key := fmt.Sprintf("%d/%d", size, seed)
	tw, ok := idTwinCache[key]
	if !ok {
		h16 := md5.Sum(content)
		if len(content) >= 16384 {
			h16 = md5.Sum(content[:16384])
		}
		seen := map[uint32]int{}
		for i := 0; i < 1<<20 && len(tw) < 6; i++ {
			name := fmt.Sprintf("tw/n%06d.bin", i)
			id := par2ref.FileID(h16, uint64(len(content)), []byte(name))
			k := binary.LittleEndian.Uint32(id[12:])
			if j, dup := seen[k]; dup {
				tw = append(tw, [2]string{fmt.Sprintf("tw/n%06d.bin", j), name})
			} else {
				seen[k] = i
			}
		}
		idTwinCache[key] = tw
	}
	var out []FileSpec
	for i := 0; i < pairs && i < len(tw); i++ {
		out = append(out, FileSpec{Name: tw[i][0], Size: size, Kind: "random", Seed: seed}, FileSpec{Name: tw[i][1], Size: size, Kind: "random", Seed: seed})
	}
	return out
}

func mustHex(h string) []byte {
	b, err := hex.DecodeString(h)
	if err != nil {
		panic(err)
	}
	return b
}

// MD5CollisionA and MD5CollisionB are the two 128-byte messages with equal MD5 published by Wang, Feng, Lai and Yu (2004).
var (
	MD5CollisionA = mustHex("d131dd02c5e6eec4693d9a0698aff95c2fcab58712467eab4004583eb8fb7f89" +
		"55ad340609f4b30283e488832571415a085125e8f7cdc99fd91dbdf280373c5b" +
		"d8823e3156348f5bae6dacd436c919c6dd53e2b487da03fd02396306d248cda0" +
		"e99f33420f577ee8ce54b67080a80d1ec69821bcb6a8839396f9652b6ff72a70")
	MD5CollisionB = mustHex("d131dd02c5e6eec4693d9a0698aff95c2fcab50712467eab4004583eb8fb7f89" +
		"55ad340609f4b30283e4888325f1415a085125e8f7cdc99fd91dbd7280373c5b" +
		"d8823e3156348f5bae6dacd436c919c6dd53e23487da03fd02396306d248cda0" +
		"e99f33420f577ee8ce54b67080280d1ec69821bcb6a8839396f965ab6ff72a70")
)
