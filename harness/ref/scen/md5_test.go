package scen

import (
	"crypto/md5"
	"testing"
)

func TestCollisionConstants(t *testing.T) {
	if md5.Sum(MD5CollisionA) != md5.Sum(MD5CollisionB) || string(MD5CollisionA) == string(MD5CollisionB) {
		t.Fatal("collision constants are wrong")
	}
	a := FileSpec{Name: "a", Size: 300, Kind: "md5a", Seed: 5}.Content(128)
	b := FileSpec{Name: "b", Size: 300, Kind: "md5b", Seed: 5}.Content(128)
	if md5.Sum(a) != md5.Sum(b) || string(a) == string(b) {
		t.Fatal("twin files do not collide")
	}
}
