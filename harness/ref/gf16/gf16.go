// Package gf16 is an independent bit-serial implementation of GF(2^16)
// modulo x^16+x^12+x^3+x+1 (0x1100B), written from the PAR2 specification.
// It shares no code or tables with gopar.
package gf16

// Poly is the reduction polynomial of the PAR2 field.
const Poly = 0x1100B

// Mul is the shift-and-xor product reduced modulo Poly.
func Mul(a, b uint16) uint16 {
	var acc uint32
	x := uint32(a)
	for i := 0; i < 16; i++ {
		if b&(1<<uint(i)) != 0 {
			acc ^= x
		}
		x <<= 1
		if x&0x10000 != 0 {
			x ^= Poly
		}
	}
	return uint16(acc)
}

// Pow is square-and-multiply; Pow(0,0)=1.
func Pow(a uint16, p uint64) uint16 {
	r := uint16(1)
	b := a
	for p != 0 {
		if p&1 != 0 {
			r = Mul(r, b)
		}
		b = Mul(b, b)
		p >>= 1
	}
	return r
}

// Inv is a^(2^16-2) (Fermat); Inv(0) is 0 by convention (callers must not rely on it).
func Inv(a uint16) uint16 { return Pow(a, 65534) }

// Div is a*Inv(b).
func Div(a, b uint16) uint16 { return Mul(a, Inv(b)) }

// MulTable returns the table t[x]=c*x for all x, built by GF(2)-linearity
// from the 16 bit-serial products c*2^k.
func MulTable(c uint16) *[65536]uint16 {
	var basis [16]uint16
	for k := 0; k < 16; k++ {
		basis[k] = Mul(c, 1<<uint(k))
	}
	t := new([65536]uint16)
	for x := 1; x < 65536; x++ {
		low := x & -x
		k := 0
		for (1 << uint(k)) != low {
			k++
		}
		t[x] = t[x^low] ^ basis[k]
	}
	return t
}

// PAR2Constants returns the first n constants c_i = 2^(n_i), n_i the i-th
// positive integer not divisible by 3, 5, 17 or 257.
func PAR2Constants(n int) []uint16 {
	out := make([]uint16, 0, n)
	for e := 1; len(out) < n && e < 65536; e++ {
		if e%3 == 0 || e%5 == 0 || e%17 == 0 || e%257 == 0 {
			continue
		}
		out = append(out, Pow(2, uint64(e)))
	}
	return out
}

// Rank computes the rank of an r x c matrix (row-major) by Gaussian elimination.
func Rank(rows, cols int, m []uint16) int {
	a := make([]uint16, len(m))
	copy(a, m)
	rank := 0
	for col := 0; col < cols && rank < rows; col++ {
		p := -1
		for r := rank; r < rows; r++ {
			if a[r*cols+col] != 0 {
				p = r
				break
			}
		}
		if p < 0 {
			continue
		}
		if p != rank {
			for k := 0; k < cols; k++ {
				a[p*cols+k], a[rank*cols+k] = a[rank*cols+k], a[p*cols+k]
			}
		}
		inv := Inv(a[rank*cols+col])
		for k := 0; k < cols; k++ {
			a[rank*cols+k] = Mul(a[rank*cols+k], inv)
		}
		for r := 0; r < rows; r++ {
			if r == rank {
				continue
			}
			f := a[r*cols+col]
			if f == 0 {
				continue
			}
			for k := 0; k < cols; k++ {
				a[r*cols+k] ^= Mul(f, a[rank*cols+k])
			}
		}
		rank++
	}
	return rank
}

// MatMul is the row-by-column product of an (r x k) and a (k x c) matrix.
func MatMul(r, k, c int, a, b []uint16) []uint16 {
	out := make([]uint16, r*c)
	for i := 0; i < r; i++ {
		for j := 0; j < c; j++ {
			var t uint16
			for x := 0; x < k; x++ {
				t ^= Mul(a[i*k+x], b[x*c+j])
			}
			out[i*c+j] = t
		}
	}
	return out
}

var (
	fexp [2 * 65535]uint16
	flog [65536]int32
)

func init() {
	// find a primitive element by bit-serial arithmetic, then build log/exp tables of our own
	g := uint16(2)
	for ; ; g++ {
		x := uint16(1)
		ord := 0
		for {
			x = Mul(x, g)
			ord++
			if x == 1 {
				break
			}
		}
		if ord == 65535 {
			break
		}
	}
	x := uint16(1)
	for i := 0; i < 65535; i++ {
		fexp[i] = x
		fexp[i+65535] = x
		flog[x] = int32(i)
		x = Mul(x, g)
	}
	for _, a := range []uint16{1, 2, 3, 0x8000, 0xffff, 0x1234, 0x100b} {
		for _, b := range []uint16{1, 2, 0xfffe, 0x4321, 0x8001} {
			if FMul(a, b) != Mul(a, b) {
				panic("gf16: fast table disagrees with bit-serial product")
			}
		}
	}
}

// FMul is a table-driven product (tables built from the bit-serial Mul above).
func FMul(a, b uint16) uint16 {
	if a == 0 || b == 0 {
		return 0
	}
	return fexp[flog[a]+flog[b]]
}

// FInv is the table-driven inverse (a != 0).
func FInv(a uint16) uint16 { return fexp[(65535-flog[a])%65535] }

// Log is the discrete logarithm of a != 0 to the base x (the generator 2), from the reference tables.
func Log(a uint16) int { return int(flog[a]) }

// FPow is the table-driven power.
func FPow(a uint16, p uint64) uint16 {
	if p == 0 {
		return 1
	}
	if a == 0 {
		return 0
	}
	return fexp[(uint64(flog[a])*(p%65535))%65535]
}

// FRank is Rank with the fast product; it also reports how many pivot
// positions needed a row swap when eliminating a square matrix top-down.
func FRank(rows, cols int, m []uint16) (rank, swaps int) {
	a := make([]uint16, len(m))
	copy(a, m)
	for col := 0; col < cols && rank < rows; col++ {
		p := -1
		for r := rank; r < rows; r++ {
			if a[r*cols+col] != 0 {
				p = r
				break
			}
		}
		if p < 0 {
			continue
		}
		if p != rank {
			swaps++
			for k := 0; k < cols; k++ {
				a[p*cols+k], a[rank*cols+k] = a[rank*cols+k], a[p*cols+k]
			}
		}
		inv := FInv(a[rank*cols+col])
		for k := col; k < cols; k++ {
			a[rank*cols+k] = FMul(a[rank*cols+k], inv)
		}
		for r := rank + 1; r < rows; r++ {
			f := a[r*cols+col]
			if f == 0 {
				continue
			}
			for k := col; k < cols; k++ {
				a[r*cols+k] ^= FMul(f, a[rank*cols+k])
			}
		}
		rank++
	}
	return
}

// FMatMul is MatMul with the fast product.
func FMatMul(r, k, c int, a, b []uint16) []uint16 {
	out := make([]uint16, r*c)
	for i := 0; i < r; i++ {
		for x := 0; x < k; x++ {
			f := a[i*k+x]
			if f == 0 {
				continue
			}
			lf := flog[f]
			row := b[x*c : (x+1)*c]
			o := out[i*c : (i+1)*c]
			for j, v := range row {
				if v != 0 {
					o[j] ^= fexp[lf+flog[v]]
				}
			}
		}
	}
	return out
}
