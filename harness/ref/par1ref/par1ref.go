// Package par1ref is an independent PAR 1.0 reader and writer written from the
// specification (Parity Volume Set specification 1.0). It shares no code with gopar.
package par1ref

import (
	"bytes"
	"crypto/md5"
	"encoding/binary"
	"errors"
	"fmt"
	"unicode/utf16"

	"verifharness/ref/gf8"
)

// Entry is one file-list entry.
type Entry struct {
	EntrySize uint64 // 0 = compute
	Status    uint64 // bit 0: saved in the parity volume set
	Size      uint64
	MD5       [16]byte
	MD516k    [16]byte
	Name      string
	NameRaw   []byte // if non-nil used instead of the UTF-16LE encoding of Name
}

// Volume is one PAR/Pxx file.
type Volume struct {
	Version   uint64 // 0 = 0x00010000
	SetHash   [16]byte
	VolNumber uint64
	Entries   []Entry
	Data      []byte // comment (index) or parity data
	// overrides (nil = computed)
	FileCount  *uint64
	ListOffset *uint64
	ListSize   *uint64
	DataOffset *uint64
	DataSize   *uint64
	BadControl bool
}

// Hash16k is the MD5 of the first 16 KiB (of everything when shorter).
func Hash16k(d []byte) [16]byte {
	if len(d) < 16384 {
		return md5.Sum(d)
	}
	return md5.Sum(d[:16384])
}

// UTF16LE encodes s.
func UTF16LE(s string) []byte {
	u := utf16.Encode([]rune(s))
	b := make([]byte, 2*len(u))
	for i, c := range u {
		b[2*i] = byte(c)
		b[2*i+1] = byte(c >> 8)
	}
	return b
}

// NewEntry builds a saved entry for a file.
func NewEntry(name string, data []byte, saved bool) Entry {
	e := Entry{Size: uint64(len(data)), MD5: md5.Sum(data), MD516k: Hash16k(data), Name: name}
	if saved {
		e.Status = 1
	}
	return e
}

// SetHash is the MD5 of the MD5s of the saved entries in list order.
func SetHash(es []Entry) [16]byte {
	var in []byte
	for _, e := range es {
		if e.Status&1 != 0 {
			in = append(in, e.MD5[:]...)
		}
	}
	return md5.Sum(in)
}

func (e Entry) encode() []byte {
	name := e.NameRaw
	if name == nil {
		name = UTF16LE(e.Name)
	}
	sz := e.EntrySize
	if sz == 0 {
		sz = uint64(56 + len(name))
	}
	var b bytes.Buffer
	binary.Write(&b, binary.LittleEndian, sz)
	binary.Write(&b, binary.LittleEndian, e.Status)
	binary.Write(&b, binary.LittleEndian, e.Size)
	b.Write(e.MD5[:])
	b.Write(e.MD516k[:])
	b.Write(name)
	return b.Bytes()
}

// Encode serialises the volume (control hash computed last).
func (v Volume) Encode() []byte {
	var list []byte
	for _, e := range v.Entries {
		list = append(list, e.encode()...)
	}
	ver := v.Version
	if ver == 0 {
		ver = 0x00010000
	}
	pick := func(p *uint64, d uint64) uint64 {
		if p != nil {
			return *p
		}
		return d
	}
	var h bytes.Buffer
	h.Write([]byte{'P', 'A', 'R', 0, 0, 0, 0, 0})
	binary.Write(&h, binary.LittleEndian, ver)
	h.Write(make([]byte, 16)) // control hash placeholder
	h.Write(v.SetHash[:])
	binary.Write(&h, binary.LittleEndian, v.VolNumber)
	binary.Write(&h, binary.LittleEndian, pick(v.FileCount, uint64(len(v.Entries))))
	binary.Write(&h, binary.LittleEndian, pick(v.ListOffset, 0x60))
	binary.Write(&h, binary.LittleEndian, pick(v.ListSize, uint64(len(list))))
	binary.Write(&h, binary.LittleEndian, pick(v.DataOffset, uint64(0x60+len(list))))
	binary.Write(&h, binary.LittleEndian, pick(v.DataSize, uint64(len(v.Data))))
	out := append(h.Bytes(), list...)
	out = append(out, v.Data...)
	sum := md5.Sum(out[0x20:])
	if v.BadControl {
		sum[3] ^= 0x40
	}
	copy(out[0x10:], sum[:])
	return out
}

// Parsed is a strictly parsed volume.
type Parsed struct {
	Version    uint64
	Control    [16]byte
	SetHash    [16]byte
	VolNumber  uint64
	FileCount  uint64
	ListOffset uint64
	ListSize   uint64
	DataOffset uint64
	DataSize   uint64
	Entries    []Entry
	Data       []byte
}

// Parse reads a volume strictly per the specification.
func Parse(b []byte) (*Parsed, error) {
	if len(b) < 0x60 {
		return nil, errors.New("shorter than the fixed header")
	}
	if !bytes.Equal(b[:8], []byte{'P', 'A', 'R', 0, 0, 0, 0, 0}) {
		return nil, errors.New("bad identification string")
	}
	p := &Parsed{}
	p.Version = binary.LittleEndian.Uint64(b[8:])
	copy(p.Control[:], b[0x10:])
	copy(p.SetHash[:], b[0x20:])
	p.VolNumber = binary.LittleEndian.Uint64(b[0x30:])
	p.FileCount = binary.LittleEndian.Uint64(b[0x38:])
	p.ListOffset = binary.LittleEndian.Uint64(b[0x40:])
	p.ListSize = binary.LittleEndian.Uint64(b[0x48:])
	p.DataOffset = binary.LittleEndian.Uint64(b[0x50:])
	p.DataSize = binary.LittleEndian.Uint64(b[0x58:])
	if uint32(p.Version) != 0x00010000 {
		return nil, fmt.Errorf("version %#x", p.Version)
	}
	if sum := md5.Sum(b[0x20:]); sum != p.Control {
		return nil, errors.New("control hash mismatch")
	}
	if p.ListOffset != 0x60 {
		return nil, fmt.Errorf("file list offset %#x", p.ListOffset)
	}
	if p.ListOffset+p.ListSize > uint64(len(b)) || p.ListOffset+p.ListSize < p.ListOffset {
		return nil, errors.New("file list exceeds the file")
	}
	if p.DataOffset != p.ListOffset+p.ListSize {
		return nil, fmt.Errorf("data offset %d != end of file list %d", p.DataOffset, p.ListOffset+p.ListSize)
	}
	if p.DataOffset+p.DataSize != uint64(len(b)) {
		return nil, fmt.Errorf("data offset+size %d != file size %d", p.DataOffset+p.DataSize, len(b))
	}
	off := p.ListOffset
	end := p.ListOffset + p.ListSize
	for i := uint64(0); i < p.FileCount; i++ {
		if off+56 > end {
			return nil, fmt.Errorf("entry %d exceeds the file list", i)
		}
		var e Entry
		e.EntrySize = binary.LittleEndian.Uint64(b[off:])
		e.Status = binary.LittleEndian.Uint64(b[off+8:])
		e.Size = binary.LittleEndian.Uint64(b[off+16:])
		copy(e.MD5[:], b[off+24:])
		copy(e.MD516k[:], b[off+40:])
		if e.EntrySize < 58 || (e.EntrySize-56)%2 != 0 || off+e.EntrySize > end {
			return nil, fmt.Errorf("entry %d: bad entry size %d", i, e.EntrySize)
		}
		e.NameRaw = b[off+56 : off+e.EntrySize]
		u := make([]uint16, len(e.NameRaw)/2)
		for k := range u {
			u[k] = uint16(e.NameRaw[2*k]) | uint16(e.NameRaw[2*k+1])<<8
		}
		e.Name = string(utf16.Decode(u))
		p.Entries = append(p.Entries, e)
		off += e.EntrySize
	}
	if off != end {
		return nil, fmt.Errorf("file list has %d trailing bytes", end-off)
	}
	p.Data = b[p.DataOffset:]
	return p, nil
}

// Parity computes parity volume v (1-based) for the saved files, zero padded to the longest.
func Parity(files [][]byte, v int) []byte {
	max := 0
	for _, f := range files {
		if len(f) > max {
			max = len(f)
		}
	}
	out := make([]byte, max)
	for i, f := range files {
		c := gf8.Pow(byte(i+1), v-1)
		for k, x := range f {
			out[k] ^= gf8.Mul(c, x)
		}
	}
	return out
}

// Solvable reports whether the PAR1 system for missing file indices (0-based)
// on the lowest-numbered len(missing) present volumes (1-based numbers) is non-singular.
func Solvable(missing []int, vols []int) (enough, nonsingular bool) {
	k := len(missing)
	if k > len(vols) {
		return false, false
	}
	if k == 0 {
		return true, true
	}
	m := make([]byte, k*k)
	for r := 0; r < k; r++ {
		for c, f := range missing {
			m[r*k+c] = gf8.Pow(byte(f+1), vols[r]-1)
		}
	}
	return true, gf8.Rank(k, k, m) == k
}
