// Package fsx provides directory snapshots, diffs and mtime stamping.
package fsx

import (
	"bytes"
	"fmt"
	"os"
	"path/filepath"
	"sort"
	"time"
)

// Entry is one filesystem object in a snapshot.
type Entry struct {
	IsDir bool
	Data  []byte
	MTime time.Time
	Mode  os.FileMode
}

// Snap maps a path relative to the snapshot root to its entry.
type Snap map[string]Entry

// Stamp is the fixed old modification time given to every file before an operation.
var Stamp = time.Date(2001, 2, 3, 4, 5, 6, 789, time.UTC)

// StampTree sets the mtime of every file and directory below root to Stamp.
func StampTree(root string) error {
	var paths []string
	err := filepath.Walk(root, func(p string, info os.FileInfo, err error) error {
		if err != nil {
			return err
		}
		paths = append(paths, p)
		return nil
	})
	if err != nil {
		return err
	}
	// children first so that directory mtimes stay as set
	for i := len(paths) - 1; i >= 0; i-- {
		if err := os.Chtimes(paths[i], Stamp, Stamp); err != nil {
			return err
		}
	}
	return nil
}

// Take snapshots the tree below root (content, mtime).
func Take(root string) (Snap, error) {
	s := Snap{}
	err := filepath.Walk(root, func(p string, info os.FileInfo, err error) error {
		if err != nil {
			return err
		}
		rel, _ := filepath.Rel(root, p)
		if info.IsDir() {
			s[rel] = Entry{IsDir: true, MTime: info.ModTime(), Mode: info.Mode()}
			return nil
		}
		if !info.Mode().IsRegular() {
			s[rel] = Entry{MTime: info.ModTime(), Mode: info.Mode()}
			return nil
		}
		b, err := os.ReadFile(p)
		if err != nil {
			return err
		}
		s[rel] = Entry{Data: b, MTime: info.ModTime(), Mode: info.Mode()}
		return nil
	})
	return s, err
}

// Change describes one difference between two snapshots.
type Change struct {
	Path string
	Kind string // created | deleted | content | mtime | type
}

func (c Change) String() string { return c.Kind + ":" + c.Path }

// Diff lists differences between before and after. Directory mtimes are
// ignored (creating a file in a directory legitimately changes them); a
// directory that appears or disappears is reported.
func Diff(before, after Snap) []Change {
	var out []Change
	for p, b := range before {
		a, ok := after[p]
		if !ok {
			out = append(out, Change{p, "deleted"})
			continue
		}
		if a.IsDir != b.IsDir {
			out = append(out, Change{p, "type"})
			continue
		}
		if a.IsDir {
			continue
		}
		if !bytes.Equal(a.Data, b.Data) {
			out = append(out, Change{p, "content"})
		} else if !a.MTime.Equal(b.MTime) {
			out = append(out, Change{p, "mtime"})
		}
	}
	for p := range after {
		if _, ok := before[p]; !ok {
			out = append(out, Change{p, "created"})
		}
	}
	sort.Slice(out, func(i, j int) bool { return out[i].Path < out[j].Path })
	return out
}

// WriteTree writes files (relative path -> content) below root, creating directories.
func WriteTree(root string, files map[string][]byte) error {
	for rel, data := range files {
		p := filepath.Join(root, rel)
		if err := os.MkdirAll(filepath.Dir(p), 0o755); err != nil {
			return err
		}
		if err := os.WriteFile(p, data, 0o644); err != nil {
			return err
		}
	}
	return nil
}

// Files returns the regular files of a snapshot as a map.
func (s Snap) Files() map[string][]byte {
	m := map[string][]byte{}
	for p, e := range s {
		if !e.IsDir {
			m[p] = e.Data
		}
	}
	return m
}

// Describe renders changes for messages.
func Describe(ch []Change) string {
	if len(ch) > 8 {
		return fmt.Sprint(ch[:8], "...")
	}
	return fmt.Sprint(ch)
}
