// Package par2ref is an independent PAR2 (Parity Volume Set Specification 2.0)
// reader and writer written from the specification.  It shares no code with gopar.
package par2ref

import (
	"bytes"
	"crypto/md5"
	"encoding/binary"
	"errors"
	"fmt"
	"hash/crc32"
	"sort"

	"verifharness/ref/gf16"
)

var Magic = []byte{'P', 'A', 'R', '2', 0, 'P', 'K', 'T'}

func typ(s string) [16]byte {
	var t [16]byte
	copy(t[:], "PAR 2.0\x00"+s)
	return t
}

var (
	TypeMain     = typ("Main")
	TypeFileDesc = typ("FileDesc")
	TypeIFSC     = typ("IFSC")
	TypeRecvSlic = typ("RecvSlic")
	TypeCreator  = typ("Creator")
)

// Packet is a raw packet.
type Packet struct {
	SetID [16]byte
	Type  [16]byte
	Body  []byte
}

// Pad4 pads b with NUL bytes to a multiple of 4.
func Pad4(b []byte) []byte {
	for len(b)%4 != 0 {
		b = append(b, 0)
	}
	return b
}

// Encode serialises a packet with a correct length and MD5.
func (p Packet) Encode() []byte {
	return p.EncodeWith(uint64(64+len(p.Body)), true)
}

// EncodeWith serialises with an explicit length field; the hash is computed
// over set id, type and body as the specification says when goodHash is set.
func (p Packet) EncodeWith(length uint64, goodHash bool) []byte {
	out := make([]byte, 0, 64+len(p.Body))
	out = append(out, Magic...)
	var l [8]byte
	binary.LittleEndian.PutUint64(l[:], length)
	out = append(out, l[:]...)
	h := md5.New()
	h.Write(p.SetID[:])
	h.Write(p.Type[:])
	h.Write(p.Body)
	sum := h.Sum(nil)
	if !goodHash {
		sum[0] ^= 0xff
	}
	out = append(out, sum...)
	out = append(out, p.SetID[:]...)
	out = append(out, p.Type[:]...)
	out = append(out, p.Body...)
	return out
}

// Pair is one slice checksum pair.
type Pair struct {
	MD5 [16]byte
	CRC uint32
}

// SetFile is one protected file of a set.
type SetFile struct {
	ID     [16]byte
	Name   string
	Length uint64
	MD5    [16]byte
	MD516k [16]byte
	Pairs  []Pair
	Data   []byte // original content when known (writer side)
}

// Set is a logical recovery set.
type Set struct {
	SliceSize uint64
	Files     []SetFile // in recovery-set order (ascending file ID)
	NonRecov  [][16]byte
	Client    string
}

// FileID computes MD5(16k-hash || length || name).
func FileID(h16k [16]byte, length uint64, name []byte) [16]byte {
	var l [8]byte
	binary.LittleEndian.PutUint64(l[:], length)
	h := md5.New()
	h.Write(h16k[:])
	h.Write(l[:])
	h.Write(name)
	var out [16]byte
	copy(out[:], h.Sum(nil))
	return out
}

// IDLess compares file IDs as little-endian 128-bit unsigned integers.
func IDLess(a, b [16]byte) bool {
	for i := 15; i >= 0; i-- {
		if a[i] != b[i] {
			return a[i] < b[i]
		}
	}
	return false
}

// PadSlice returns data[start:start+s] zero-padded to s bytes.
func PadSlice(data []byte, start int, s int) []byte {
	out := make([]byte, s)
	if start < len(data) {
		copy(out, data[start:])
	}
	return out
}

// NewSetFile computes all derived fields for a file.
func NewSetFile(name string, data []byte, sliceSize int) SetFile {
	f := SetFile{Name: name, Length: uint64(len(data)), Data: data}
	f.MD5 = md5.Sum(data)
	if len(data) < 16384 {
		f.MD516k = f.MD5
	} else {
		f.MD516k = md5.Sum(data[:16384])
	}
	f.ID = FileID(f.MD516k, f.Length, []byte(name))
	for o := 0; o < len(data); o += sliceSize {
		sl := PadSlice(data, o, sliceSize)
		f.Pairs = append(f.Pairs, Pair{MD5: md5.Sum(sl), CRC: crc32.ChecksumIEEE(sl)})
	}
	return f
}

// NewSet builds a set from name -> content.
func NewSet(sliceSize int, files map[string][]byte) *Set {
	s := &Set{SliceSize: uint64(sliceSize), Client: "verif reference writer"}
	for n, d := range files {
		s.Files = append(s.Files, NewSetFile(n, d, sliceSize))
	}
	sort.Slice(s.Files, func(i, j int) bool { return IDLess(s.Files[i].ID, s.Files[j].ID) })
	return s
}

// MainBody is the body of the main packet.
func (s *Set) MainBody() []byte {
	var b bytes.Buffer
	binary.Write(&b, binary.LittleEndian, s.SliceSize)
	binary.Write(&b, binary.LittleEndian, uint32(len(s.Files)))
	for _, f := range s.Files {
		b.Write(f.ID[:])
	}
	for _, id := range s.NonRecov {
		b.Write(id[:])
	}
	return b.Bytes()
}

// SetID is MD5 of the main packet body.
func (s *Set) SetID() [16]byte { return md5.Sum(s.MainBody()) }

// FileDescBody is the body of a file description packet.
func FileDescBody(f SetFile) []byte {
	var b bytes.Buffer
	b.Write(f.ID[:])
	b.Write(f.MD5[:])
	b.Write(f.MD516k[:])
	binary.Write(&b, binary.LittleEndian, f.Length)
	b.Write(Pad4([]byte(f.Name)))
	return b.Bytes()
}

// IFSCBody is the body of an input-file-slice-checksum packet.
func IFSCBody(f SetFile) []byte {
	var b bytes.Buffer
	b.Write(f.ID[:])
	for _, p := range f.Pairs {
		b.Write(p.MD5[:])
		binary.Write(&b, binary.LittleEndian, p.CRC)
	}
	return b.Bytes()
}

// RecoveryBody is the body of a recovery slice packet.
func RecoveryBody(exp uint32, data []byte) []byte {
	var b bytes.Buffer
	binary.Write(&b, binary.LittleEndian, exp)
	b.Write(data)
	return b.Bytes()
}

// CreatorBody is the body of a creator packet.
func CreatorBody(client string) []byte { return Pad4([]byte(client)) }

// Slices returns all input slices (zero padded) in recovery-set order.
func (s *Set) Slices() [][]byte {
	var out [][]byte
	ss := int(s.SliceSize)
	for _, f := range s.Files {
		for o := 0; o < len(f.Data); o += ss {
			out = append(out, PadSlice(f.Data, o, ss))
		}
	}
	return out
}

var consts = gf16.PAR2Constants(32768)

// Constant returns the PAR2 constant of input slice i.
func Constant(i int) uint16 { return consts[i] }

// RecoveryBlock computes recovery block exp = sum_i slice_i * c_i^exp on LE 16-bit words.
func RecoveryBlock(slices [][]byte, sliceSize int, exp int) []byte {
	out := make([]byte, sliceSize)
	for i, sl := range slices {
		f := gf16.FPow(consts[i], uint64(exp))
		if f == 0 {
			continue
		}
		for k := 0; k+1 < sliceSize; k += 2 {
			w := uint16(sl[k]) | uint16(sl[k+1])<<8
			if w == 0 {
				continue
			}
			v := gf16.FMul(f, w)
			out[k] ^= byte(v)
			out[k+1] ^= byte(v >> 8)
		}
	}
	return out
}

// CriticalPackets returns main, file description and IFSC packets of the set.
func (s *Set) CriticalPackets() []Packet {
	id := s.SetID()
	out := []Packet{{id, TypeMain, s.MainBody()}}
	for _, f := range s.Files {
		out = append(out, Packet{id, TypeFileDesc, FileDescBody(f)}, Packet{id, TypeIFSC, IFSCBody(f)})
	}
	return out
}

// CreatorPacket returns the creator packet.
func (s *Set) CreatorPacket() Packet { return Packet{s.SetID(), TypeCreator, CreatorBody(s.Client)} }

// RecoveryPacket returns the recovery packet for exponent exp.
func (s *Set) RecoveryPacket(exp int) Packet {
	return Packet{s.SetID(), TypeRecvSlic, RecoveryBody(uint32(exp), RecoveryBlock(s.Slices(), int(s.SliceSize), exp))}
}

// EncodeAll concatenates packets.
func EncodeAll(ps []Packet) []byte {
	var out []byte
	for _, p := range ps {
		out = append(out, p.Encode()...)
	}
	return out
}

// ---------------------------------------------------------------- reader

// Parsed is a packet found in a byte stream.
type Parsed struct {
	Offset int
	Length uint64
	SetID  [16]byte
	Type   [16]byte
	Body   []byte
}

// ScanStrict requires the stream to be an exact tiling of valid packets.
func ScanStrict(b []byte) ([]Parsed, error) {
	var out []Parsed
	off := 0
	for off < len(b) {
		if len(b)-off < 64 {
			return out, fmt.Errorf("offset %d: %d trailing bytes, shorter than a packet header", off, len(b)-off)
		}
		if !bytes.Equal(b[off:off+8], Magic) {
			return out, fmt.Errorf("offset %d: bad magic", off)
		}
		l := binary.LittleEndian.Uint64(b[off+8:])
		if l < 64 || l%4 != 0 {
			return out, fmt.Errorf("offset %d: bad packet length %d", off, l)
		}
		if l > uint64(len(b)-off) {
			return out, fmt.Errorf("offset %d: packet length %d exceeds the file", off, l)
		}
		p := Parsed{Offset: off, Length: l}
		copy(p.SetID[:], b[off+32:])
		copy(p.Type[:], b[off+48:])
		p.Body = b[off+64 : off+int(l)]
		sum := md5.Sum(b[off+32 : off+int(l)])
		if !bytes.Equal(sum[:], b[off+16:off+32]) {
			return out, fmt.Errorf("offset %d: packet MD5 mismatch", off)
		}
		out = append(out, p)
		off += int(l)
	}
	return out, nil
}

// ScanTolerant finds every valid packet at any offset, skipping damage.
func ScanTolerant(b []byte) []Parsed {
	var out []Parsed
	off := 0
	for off+64 <= len(b) {
		i := bytes.Index(b[off:], Magic)
		if i < 0 {
			break
		}
		off += i
		if off+64 > len(b) {
			break
		}
		l := binary.LittleEndian.Uint64(b[off+8:])
		if l < 64 || l%4 != 0 || l > uint64(len(b)-off) {
			off++
			continue
		}
		sum := md5.Sum(b[off+32 : off+int(l)])
		if !bytes.Equal(sum[:], b[off+16:off+32]) {
			off++
			continue
		}
		p := Parsed{Offset: off, Length: l}
		copy(p.SetID[:], b[off+32:])
		copy(p.Type[:], b[off+48:])
		p.Body = b[off+64 : off+int(l)]
		out = append(out, p)
		off += int(l)
	}
	return out
}

// Main is a decoded main packet.
type Main struct {
	SliceSize uint64
	NRecovery uint32
	IDs       [][16]byte
}

// ParseMain decodes a main packet body.
func ParseMain(body []byte) (Main, error) {
	if len(body) < 12 || (len(body)-12)%16 != 0 {
		return Main{}, errors.New("main packet: bad body size")
	}
	m := Main{SliceSize: binary.LittleEndian.Uint64(body), NRecovery: binary.LittleEndian.Uint32(body[8:])}
	for o := 12; o < len(body); o += 16 {
		var id [16]byte
		copy(id[:], body[o:])
		m.IDs = append(m.IDs, id)
	}
	return m, nil
}

// Desc is a decoded file description packet.
type Desc struct {
	ID, MD5, MD516k [16]byte
	Length          uint64
	NameRaw         []byte // as stored (with padding)
	Name            string // up to the first NUL
}

// ParseFileDesc decodes a file description body.
func ParseFileDesc(body []byte) (Desc, error) {
	if len(body) < 56 {
		return Desc{}, errors.New("file description: body too short")
	}
	var d Desc
	copy(d.ID[:], body)
	copy(d.MD5[:], body[16:])
	copy(d.MD516k[:], body[32:])
	d.Length = binary.LittleEndian.Uint64(body[48:])
	d.NameRaw = body[56:]
	n := d.NameRaw
	if i := bytes.IndexByte(n, 0); i >= 0 {
		n = n[:i]
	}
	d.Name = string(n)
	return d, nil
}

// ParseIFSC decodes an IFSC body.
func ParseIFSC(body []byte) ([16]byte, []Pair, error) {
	var id [16]byte
	if len(body) < 16 || (len(body)-16)%20 != 0 {
		return id, nil, errors.New("ifsc: bad body size")
	}
	copy(id[:], body)
	var ps []Pair
	for o := 16; o < len(body); o += 20 {
		var p Pair
		copy(p.MD5[:], body[o:])
		p.CRC = binary.LittleEndian.Uint32(body[o+16:])
		ps = append(ps, p)
	}
	return id, ps, nil
}

// ParseRecovery decodes a recovery slice body.
func ParseRecovery(body []byte) (uint32, []byte, error) {
	if len(body) < 4 {
		return 0, nil, errors.New("recovery: body too short")
	}
	return binary.LittleEndian.Uint32(body), body[4:], nil
}
