package c14

import (
	"testing"

	"pgregory.net/rapid"
	"verifharness/ref/run"
)

// Coverage-guided stage: the history generator of TestCheck (up to 16 steps) driven by the fuzzing engine's bytes.
func historyProp(rt *rapid.T) run.RapidVerdict {
	c := genCase(rt, 16)
	msg, inf := checkHistory(c)
	cl := "history:" + c.Format
	return run.RapidVerdict{Case: c, Kind: "history", Msg: msg, Class: cl, NonTrivial: inf.failedThenRepaired}
}

var fuzzProps = map[string]func(*rapid.T) run.RapidVerdict{"FuzzHistory": historyProp}

func FuzzHistory(f *testing.F) { run.FuzzRapid(f, "C14", historyProp) }
