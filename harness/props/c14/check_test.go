// C14: Repair converges and is idempotent over any history of damage and repair.
package c14

import (
	"bytes"
	"fmt"
	"os"
	"path/filepath"
	"sort"
	"strings"
	"testing"

	"github.com/akalin/gopar/par1"
	"github.com/akalin/gopar/par2"
	"pgregory.net/rapid"
	"verifharness/ref/fsx"
	"verifharness/ref/model"
	"verifharness/ref/par1ref"
	"verifharness/ref/par2ref"
	"verifharness/ref/run"
	"verifharness/ref/scen"
)

// Action is one step of a history.
type Action struct {
	Kind   string      `json:"kind"` // damage restore delvol restorevol verify repair
	File   int         `json:"file,omitempty"`
	Vol    int         `json:"vol,omitempty"`
	Damage scen.Damage `json:"damage,omitempty"`
	DC     bool        `json:"dc,omitempty"`
	P      int         `json:"p,omitempty"` // palette index (kind "palette")
}

// Case is a set plus a history.
type Case struct {
	Format  string          `json:"format"`
	Files   []scen.FileSpec `json:"files"`
	Slice   int             `json:"slice"`
	N       int             `json:"n"`
	Actions []Action        `json:"actions"`
}

type world struct {
	c      Case
	root   string
	dir    string
	S      int
	idx    string
	names  []string
	orig   map[string][]byte
	vols   []string
	volDat map[string][]byte
	prot   []model.ProtFile
	setID  [16]byte
}

func (w *world) close() { os.RemoveAll(w.root) }

func newWorld(c Case) (*world, string) {
	w := &world{c: c, S: c.Slice, orig: map[string][]byte{}, volDat: map[string][]byte{}}
	w.root = run.Scratch("c14")
	w.dir = filepath.Join(w.root, "w")
	if c.Format == "par1" {
		w.S = 64
		w.idx = filepath.Join(w.dir, "set.par")
	} else {
		w.idx = filepath.Join(w.dir, "set.par2")
	}
	var paths []string
	for _, f := range c.Files {
		w.orig[f.Name] = f.Content(w.S)
		w.names = append(w.names, f.Name)
		paths = append(paths, filepath.Join(w.dir, f.Name))
	}
	fsx.WriteTree(w.dir, w.orig)
	before, _ := fsx.Take(w.dir)
	var err error
	if c.Format == "par2" {
		err = par2.Create(w.idx, paths, par2.CreateOptions{SliceByteCount: c.Slice, NumParityShards: c.N, NumGoroutines: 2})
	} else {
		err = par1.Create(w.idx, paths, par1.CreateOptions{NumParityFiles: c.N})
	}
	if err != nil {
		return w, "Create failed: " + err.Error()
	}
	after, _ := fsx.Take(w.dir)
	for _, ch := range fsx.Diff(before, after) {
		if ch.Path != filepath.Base(w.idx) {
			w.vols = append(w.vols, ch.Path)
			w.volDat[ch.Path] = after[ch.Path].Data
		}
	}
	sort.Strings(w.vols)
	if c.Format == "par2" {
		w.prot = scen.ProtOrder(w.orig, w.S)
		w.setID = par2ref.NewSet(w.S, w.orig).SetID()
	}
	return w, ""
}

func (w *world) files() map[string][]byte {
	m := map[string][]byte{}
	for _, n := range w.names {
		if b, err := os.ReadFile(filepath.Join(w.dir, n)); err == nil {
			m[n] = b
		}
	}
	return m
}

func (w *world) allOriginal() bool {
	cur := w.files()
	for n, d := range w.orig {
		if b, ok := cur[n]; !ok || !bytes.Equal(b, d) {
			return false
		}
	}
	return true
}

// withinCapacity: (decided, ok) from the model for the current directory.
func (w *world) withinCapacity() (bool, bool) {
	cur := w.files()
	if w.c.Format == "par2" {
		loc := model.Locate(w.S, w.prot, cur)
		if loc.Ambiguous {
			return false, false
		}
		var exps []int
		for _, v := range w.vols {
			b, err := os.ReadFile(filepath.Join(w.dir, v))
			if err != nil {
				continue
			}
			for _, p := range par2ref.ScanTolerant(b) {
				if p.Type == par2ref.TypeRecvSlic && p.SetID == w.setID {
					e, _, _ := par2ref.ParseRecovery(p.Body)
					exps = append(exps, int(e))
				}
			}
		}
		enough, nonsing := model.Solvable(model.Missing(loc.May), exps)
		return true, enough && nonsing
	}
	var unusable, vols []int
	for i, n := range w.names {
		if b, ok := cur[n]; !ok || !bytes.Equal(b, w.orig[n]) {
			unusable = append(unusable, i)
		}
	}
	for i, v := range w.vols {
		if _, err := os.Stat(filepath.Join(w.dir, v)); err == nil {
			vols = append(vols, i+1)
		}
	}
	enough, nonsing := par1ref.Solvable(unusable, vols)
	return true, enough && nonsing
}

func (w *world) verify() (clean bool, err error, pan string) {
	p, m := run.Safe(func() {
		if w.c.Format == "par2" {
			var r par2.VerifyResult
			r, err = par2.Verify(w.idx, par2.VerifyOptions{NumGoroutines: 2})
			clean = err == nil && !r.ShardCounts.RepairNeeded()
		} else {
			var r par1.VerifyResult
			r, err = par1.Verify(w.idx, par1.VerifyOptions{})
			clean = err == nil && !r.FileCounts.RepairNeeded()
		}
	})
	if p {
		pan = m
	}
	return
}

func (w *world) repair(dc bool) (paths []string, err error, pan string) {
	p, m := run.Safe(func() {
		if w.c.Format == "par2" {
			var r par2.RepairResult
			r, err = par2.Repair(w.idx, par2.RepairOptions{NumGoroutines: 3, DoubleCheck: dc})
			paths = r.RepairedPaths
		} else {
			var r par1.RepairResult
			r, err = par1.Repair(w.idx, par1.RepairOptions{DoubleCheck: dc})
			paths = r.RepairedPaths
		}
	})
	if p {
		pan = m
	}
	return
}

// checkVerify: Verify never changes the state; clean => intact.
func (w *world) checkVerify() string {
	fsx.StampTree(w.dir)
	pre, _ := fsx.Take(w.dir)
	clean, _, pan := w.verify()
	if pan != "" {
		return "Verify panicked: " + pan
	}
	post, _ := fsx.Take(w.dir)
	if d := fsx.Diff(pre, post); len(d) > 0 {
		return "Verify changed the state: " + fsx.Describe(d)
	}
	if clean && !w.allOriginal() {
		return "Verify is clean although a file is damaged"
	}
	return ""
}

// checkRepair runs Repair and checks the per-step invariants. It returns (msg, succeeded).
func (w *world) checkRepair(dc bool) (string, bool) {
	prev := w.files()
	decided, within := w.withinCapacity()
	var mayBefore []bool
	if w.c.Format == "par2" {
		mayBefore = model.Locate(w.S, w.prot, prev).May
	}
	_, err, pan := w.repair(dc)
	if pan != "" {
		return "Repair panicked: " + pan, false
	}
	cur := w.files()
	if err != nil {
		// a failed Repair never increases the damage
		for _, n := range w.names {
			c, cok := cur[n]
			p, pok := prev[n]
			if cok && bytes.Equal(c, w.orig[n]) {
				continue
			}
			if cok != pok || !bytes.Equal(c, p) {
				return fmt.Sprintf("failed Repair left %q with content that is neither its previous content nor its original", n), false
			}
		}
		if decided && within {
			return fmt.Sprintf("Repair failed (%v) although the damage is within the recovery capacity", err), false
		}
		if mayBefore != nil {
			// ... so that repeated attempts converge: no slice content that was still present may be gone afterwards
			mayAfter := model.Locate(w.S, w.prot, cur).May
			for i := range mayBefore {
				if mayBefore[i] && !mayAfter[i] {
					return fmt.Sprintf("failed Repair destroyed the last copy of protected slice %d (present before, absent after): the damage increased", i), false
				}
			}
		}
		return "", false
	}
	if !w.allOriginal() {
		return "Repair returned nil but a file is not restored", true
	}
	clean, verr, vpan := w.verify()
	if vpan != "" || verr != nil || !clean {
		return fmt.Sprintf("after a successful Repair Verify is not clean (err=%v %s)", verr, vpan), true
	}
	// a further Repair rewrites nothing
	fsx.StampTree(w.dir)
	pre, _ := fsx.Take(w.dir)
	paths, err2, pan2 := w.repair(!dc)
	if pan2 != "" {
		return "second Repair panicked: " + pan2, true
	}
	post, _ := fsx.Take(w.dir)
	if d := fsx.Diff(pre, post); len(d) > 0 {
		return "a further Repair after a successful one rewrote files: " + fsx.Describe(d), true
	}
	if err2 == nil && len(paths) > 0 {
		return fmt.Sprintf("a further Repair after a successful one reports repaired paths %v", paths), true
	}
	return "", true
}

func (w *world) apply(a Action) {
	switch a.Kind {
	case "damage":
		state := w.files()
		a.Damage.Apply(w.names, state)
		for _, n := range w.names {
			p := filepath.Join(w.dir, n)
			if d, ok := state[n]; ok {
				os.WriteFile(p, d, 0o644)
			} else {
				os.Remove(p)
			}
		}
	case "palette":
		f := a.File % len(w.names)
		d, ok := paletteContent(w.orig, w.names, f, a.P%len(palette))
		if ok {
			os.WriteFile(filepath.Join(w.dir, w.names[f]), d, 0o644)
		} else {
			os.Remove(filepath.Join(w.dir, w.names[f]))
		}
	case "restore":
		n := w.names[a.File%len(w.names)]
		os.WriteFile(filepath.Join(w.dir, n), w.orig[n], 0o644)
	case "delvol":
		if len(w.vols) > 0 {
			os.Remove(filepath.Join(w.dir, w.vols[a.Vol%len(w.vols)]))
		}
	case "restorevol":
		if len(w.vols) > 0 {
			v := w.vols[a.Vol%len(w.vols)]
			os.WriteFile(filepath.Join(w.dir, v), w.volDat[v], 0o644)
		}
	}
}

type hinfo struct {
	failedThenRepaired bool
	repairs            int
}

func checkHistory(c Case) (string, hinfo) {
	var inf hinfo
	w, msg := newWorld(c)
	defer w.close()
	if msg != "" {
		return msg, inf
	}
	sawFail, sawRepairAfterDamage, damagedSinceRepair := false, false, false
	for i, a := range c.Actions {
		switch a.Kind {
		case "verify":
			if m := w.checkVerify(); m != "" {
				return fmt.Sprintf("step %d: %s", i, m), inf
			}
		case "repair":
			inf.repairs++
			m, ok := w.checkRepair(a.DC)
			if m != "" {
				return fmt.Sprintf("step %d: %s", i, m), inf
			}
			if !ok {
				sawFail = true
			}
			if damagedSinceRepair && (sawFail || sawRepairAfterDamage) {
				inf.failedThenRepaired = true
			}
			sawRepairAfterDamage = true
			damagedSinceRepair = false
		default:
			w.apply(a)
			damagedSinceRepair = true
		}
	}
	// convergence: once all recovery files have arrived, Repair succeeds if the model says the damage is within capacity
	for i := range w.vols {
		w.apply(Action{Kind: "restorevol", Vol: i})
	}
	decided, within := w.withinCapacity()
	m, ok := w.checkRepair(false)
	if m != "" {
		return "final step (all recovery files restored): " + m, inf
	}
	if decided && within && !ok {
		return "with all recovery files back Repair still fails although the damage is within capacity", inf
	}
	return "", inf
}

// ---------------------------------------------------------------- closure over a palette abstraction

var palette = []string{"original", "deleted", "flipped", "truncated", "shifted", "other", "garbage"}

func paletteContent(orig map[string][]byte, names []string, f int, p int) ([]byte, bool) {
	o := orig[names[f]]
	switch palette[p] {
	case "original":
		return o, true
	case "deleted":
		return nil, false
	case "flipped":
		c := append([]byte{}, o...)
		c[len(c)/2] ^= 0x10
		return c, true
	case "truncated":
		return o[:len(o)-1-len(o)/3], true
	case "shifted":
		return append([]byte{0xEE}, o...), true
	case "other":
		return orig[names[(f+1)%len(names)]], true
	default:
		c := make([]byte, len(o)+3)
		for i := range c {
			c[i] = byte(i*91 + 17*f + 3)
		}
		return c, true
	}
}

func closure(c Case, rec *run.Rec, cfg *run.Cfg, salt int) (msg string, bad Case) {
	w, m := newWorld(c)
	defer w.close()
	if m != "" {
		return m, c
	}
	nf, nv := len(w.names), len(w.vols)
	if nv > 2 {
		nv = 2
	}
	nstates := 1
	for i := 0; i < nf; i++ {
		nstates *= len(palette)
	}
	nstates <<= uint(nv)
	states, transitions := 0, 0
	for s := 0; s < nstates; s++ {
		if !cfg.Mine(s + salt) {
			continue
		}
		states++
		setState := func() []Action {
			var hist []Action
			x := s >> uint(nv)
			for f := 0; f < nf; f++ {
				p := x % len(palette)
				x /= len(palette)
				d, ok := paletteContent(w.orig, w.names, f, p)
				path := filepath.Join(w.dir, w.names[f])
				if ok {
					os.WriteFile(path, d, 0o644)
				} else {
					os.Remove(path)
				}
			}
			for v := 0; v < len(w.vols); v++ {
				present := v >= nv || s&(1<<uint(v)) == 0
				if present {
					os.WriteFile(filepath.Join(w.dir, w.vols[v]), w.volDat[w.vols[v]], 0o644)
				} else {
					os.Remove(filepath.Join(w.dir, w.vols[v]))
				}
			}
			return hist
		}
		for _, op := range []string{"verify", "repair", "repair-dc"} {
			setState()
			transitions++
			rec.Eval()
			var m string
			switch op {
			case "verify":
				m = w.checkVerify()
			default:
				prev := w.files()
				m, _ = w.checkRepair(op == "repair-dc")
				if m == "" {
					// the successor state stays inside the abstraction: every file is its previous palette entry or the original
					cur := w.files()
					for _, n := range w.names {
						cv, cok := cur[n]
						pv, pok := prev[n]
						if cok && bytes.Equal(cv, w.orig[n]) {
							continue
						}
						if cok != pok || !bytes.Equal(cv, pv) {
							m = fmt.Sprintf("Repair moved %q outside the palette abstraction", n)
						}
					}
				}
			}
			if m != "" {
				// make the failing state replayable as a history
				bad := c
				x := s >> uint(nv)
				for f := 0; f < nf; f++ {
					bad.Actions = append(bad.Actions, Action{Kind: "palette", File: f, P: x % len(palette)})
					x /= len(palette)
				}
				for v := 0; v < nv; v++ {
					if s&(1<<uint(v)) != 0 {
						bad.Actions = append(bad.Actions, Action{Kind: "delvol", Vol: v})
					}
				}
				if op == "verify" {
					bad.Actions = append(bad.Actions, Action{Kind: "verify"})
				} else {
					bad.Actions = append(bad.Actions, Action{Kind: "repair", DC: op == "repair-dc"})
				}
				return fmt.Sprintf("closure state %d (%s) op %s: %s", s, describe(s, nf, nv), op, m), bad
			}
		}
	}
	rec.ClassN("closure-states", uint64(states))
	rec.ClassN("closure-transitions", uint64(transitions))
	return "", c
}

func describe(s, nf, nv int) string {
	var parts []string
	x := s >> uint(nv)
	for f := 0; f < nf; f++ {
		parts = append(parts, palette[x%len(palette)])
		x /= len(palette)
	}
	for v := 0; v < nv; v++ {
		if s&(1<<uint(v)) != 0 {
			parts = append(parts, fmt.Sprintf("vol%d-absent", v))
		}
	}
	return strings.Join(parts, ",")
}

var dmgOps = []string{"delete", "flip", "insert", "remove", "truncate", "append", "swap", "copy", "move", "overwrite", "trimzeros", "catonto"}

func genCase(t *rapid.T, maxSteps int) Case {
	c := Case{Format: rapid.SampledFrom([]string{"par2", "par2", "par1"}).Draw(t, "format")}
	if c.Format == "par2" {
		c.Slice = rapid.SampledFrom([]int{4, 8, 16, 64}).Draw(t, "S")
		c.Files = scen.GenFiles(t, c.Slice, 4, 600, 30)
		c.N = rapid.IntRange(1, 6).Draw(t, "n")
	} else {
		c.Files = scen.GenFiles1(t, 4, 400)
		for i := range c.Files {
			if c.Files[i].Size == 0 {
				c.Files[i].Size = 1 + i
			}
		}
		c.N = rapid.IntRange(1, 3).Draw(t, "n")
	}
	ns := rapid.IntRange(5, maxSteps).Draw(t, "nsteps")
	for i := 0; i < ns; i++ {
		a := Action{Kind: rapid.SampledFrom([]string{"damage", "damage", "damage", "restore", "delvol", "restorevol", "verify", "repair", "repair"}).Draw(t, "kind")}
		switch a.Kind {
		case "damage":
			a.Damage = scen.GenDamage(t, len(c.Files), scen.MaxLen(c.Files), max(c.Slice, 4), dmgOps)
		case "restore":
			a.File = rapid.IntRange(0, len(c.Files)-1).Draw(t, "file")
		case "delvol", "restorevol":
			a.Vol = rapid.IntRange(0, 5).Draw(t, "vol")
		case "repair":
			a.DC = rapid.Bool().Draw(t, "dc")
		}
		c.Actions = append(c.Actions, a)
	}
	return c
}

func TestCheck(t *testing.T) {
	cfg := run.Load("C14")
	rec := run.NewRec(cfg)
	defer rec.Finish(t)
	do := func(c Case) bool {
		rec.Eval()
		rec.Class("history:" + c.Format)
		msg, inf := checkHistory(c)
		if msg != "" {
			return rec.Fail("history", c, "", msg) == ""
		}
		if inf.repairs >= 2 {
			rec.Class("history-with>=2-repairs")
		}
		if inf.failedThenRepaired {
			rec.NonTrivial(c)
		}
		return true
	}
	if cfg.Replay != "" {
		if rec.ReplayFuzzRapid(t, cfg.Replay, fuzzProps) {
			return
		}
		var c Case
		if _, err := run.LoadReplay(cfg.Replay, &c); err != nil {
			t.Fatal(err)
		}
		do(c)
		return
	}
	for _, f := range cfg.RegressFiles() {
		var c Case
		if _, err := run.LoadReplay(f, &c); err == nil && cfg.Shard == 0 {
			do(c)
		}
	}
	// closure of fixed tiny configurations
	confs := []Case{
		{Format: "par2", Slice: 4, N: 2, Files: []scen.FileSpec{{Name: "a.dat", Size: 9, Kind: "random", Seed: 1}, {Name: "b.bin", Size: 6, Kind: "random", Seed: 2}}},
		{Format: "par1", N: 2, Files: []scen.FileSpec{{Name: "a.dat", Size: 9, Kind: "random", Seed: 1}, {Name: "b.bin", Size: 6, Kind: "random", Seed: 2}}},
	}
	if cfg.Thorough() {
		confs = append(confs,
			Case{Format: "par2", Slice: 8, N: 3, Files: []scen.FileSpec{{Name: "a.dat", Size: 20, Kind: "random", Seed: 3}, {Name: "s/b.bin", Size: 8, Kind: "random", Seed: 4}, {Name: "c", Size: 17, Kind: "random", Seed: 5}}},
			Case{Format: "par1", N: 2, Files: []scen.FileSpec{{Name: "a.dat", Size: 20, Kind: "random", Seed: 3}, {Name: "b.bin", Size: 8, Kind: "random", Seed: 4}, {Name: "c", Size: 17, Kind: "random", Seed: 5}}},
			Case{Format: "par2", Slice: 4, N: 1, Files: []scen.FileSpec{{Name: "a.dat", Size: 4, Kind: "random", Seed: 6}, {Name: "b.bin", Size: 4, Kind: "random", Seed: 6}}},
			Case{Format: "par2", Slice: 16, N: 4, Files: []scen.FileSpec{{Name: "a.dat", Size: 40, Kind: "alpha", Seed: 7}, {Name: "b.bin", Size: 33, Kind: "random", Seed: 8}}},
		)
	}
	for i, c := range confs {
		if msg, bad := closure(c, rec, cfg, i); msg != "" {
			rec.Fail("closure", bad, "", msg)
		}
	}
	// PAR1 at the limit files + volumes == 256: all volumes gone, a file lost, then only the highest-numbered volume arrives
	if cfg.Mine(77) {
		c := Case{Format: "par1", N: 56}
		for i := 0; i < 200; i++ {
			c.Files = append(c.Files, scen.FileSpec{Name: fmt.Sprintf("lim%03d.bin", i), Size: 1 + (i*5)%19, Kind: "random", Seed: uint64(500 + i)})
		}
		for v := 0; v < 56; v++ {
			c.Actions = append(c.Actions, Action{Kind: "delvol", Vol: v})
		}
		c.Actions = append(c.Actions, Action{Kind: "damage", Damage: scen.Damage{Op: "delete", File: 100}}, Action{Kind: "repair"}, Action{Kind: "restorevol", Vol: 55}, Action{Kind: "verify"}, Action{Kind: "repair", DC: true})
		do(c)
	}
	// more than a thousand identical slices (a long run of zeros) beside an ordinary file: damage, repair, verify, repair again
	for k, nz := range []int{1030, 2100} {
		if !cfg.Mine(78+k) || (k > 0 && !cfg.Thorough()) {
			continue
		}
		rec.Class("history-with>1024-identical-slices")
		c := Case{Format: "par2", Slice: 4, N: 2, Files: []scen.FileSpec{{Name: "z.bin", Size: 4 * nz, Kind: "zeros", Seed: 1}, {Name: "a.dat", Size: 10, Kind: "random", Seed: 2}}}
		c.Actions = []Action{{Kind: "damage", Damage: scen.Damage{Op: "flip", File: 1, Off: 5}}, {Kind: "verify"}, {Kind: "repair"}, {Kind: "verify"}, {Kind: "repair", DC: true},
			{Kind: "damage", Damage: scen.Damage{Op: "truncate", File: 0, Off: 4*nz - 6}}, {Kind: "repair"}, {Kind: "verify"}, {Kind: "repair"}}
		do(c)
	}
	// two files of 16 MiB that have exchanged their contents (every slice is still there, no recovery block is needed), and
	// "cat F G > F; rm G" with F a whole number of slices
	if cfg.Mine(85) {
		rec.Class("history-with-16MiB-files-exchanged")
		c := Case{Format: "par2", Slice: 1 << 20, N: 1, Files: []scen.FileSpec{{Name: "one.bin", Size: 16 << 20, Kind: "random", Seed: 21}, {Name: "two.bin", Size: 16 << 20, Kind: "random", Seed: 22}}}
		c.Actions = []Action{{Kind: "damage", Damage: scen.Damage{Op: "swap", File: 0, Other: 1}}, {Kind: "verify"}, {Kind: "repair"}, {Kind: "verify"}, {Kind: "repair", DC: true}}
		do(c)
	}
	if cfg.Mine(86) {
		rec.Class("history-with-lost-file-appended-to-a-complete-file")
		c := Case{Format: "par2", Slice: 8, N: 1, Files: []scen.FileSpec{{Name: "f.bin", Size: 32, Kind: "random", Seed: 23}, {Name: "g.bin", Size: 21, Kind: "random", Seed: 24}}}
		c.Actions = []Action{{Kind: "damage", Damage: scen.Damage{Op: "catonto", File: 0, Other: 1}}, {Kind: "verify"}, {Kind: "repair"}, {Kind: "repair", DC: true}, {Kind: "verify"}}
		do(c)
	}
	// a file whose second half is all zero (64 KiB and more of zeros at the end) is lost, restored, verified, repaired again
	for k, f := range []string{"par2", "par1"} {
		if !cfg.Mine(81 + k) {
			continue
		}
		rec.Class("history-with-zero-tail-file")
		c := Case{Format: f, Slice: 65536, N: 3, Files: []scen.FileSpec{{Name: "img.bin", Size: 131072 + 65536*k, Kind: "halfzero", Seed: 11}, {Name: "a.dat", Size: 10, Kind: "random", Seed: 2}}}
		c.Actions = []Action{{Kind: "damage", Damage: scen.Damage{Op: "delete", File: 0}}, {Kind: "verify"}, {Kind: "repair"}, {Kind: "verify"}, {Kind: "repair", DC: true}, {Kind: "verify"}}
		do(c)
	}
	cfg.SetRapid(cfg.N(600, 5000), 1)
	rapid.Check(t, func(rt *rapid.T) {
		if !do(genCase(rt, cfg.N(25, 40))) {
			rt.Fatalf("C14 failed")
		}
	})
}
