// C15: archives cannot direct reads or writes outside the archive's directory.
package c15

import (
	"bytes"
	"fmt"
	"os"
	"path/filepath"
	"strings"
	"testing"

	"github.com/akalin/gopar/par1"
	"github.com/akalin/gopar/par2"
	"pgregory.net/rapid"
	"verifharness/ref/fsx"
	"verifharness/ref/par1ref"
	"verifharness/ref/par2ref"
	"verifharness/ref/run"
)

// Case: one hostile name at one position of an otherwise valid, fully repairable set.
type Case struct {
	Format   string `json:"format"` // par2 | par1 | create
	Name     string `json:"name"`   // hostile declared name ({ROOT} is replaced by the scratch root)
	Name2    string `json:"name2,omitempty"`
	Pos      int    `json:"pos"`     // position of the hostile entry among 3
	Present  bool   `json:"present"` // the well-named files are present (only the hostile one is "missing")
	NulInID  bool   `json:"nul_in_id,omitempty"`
	Spelling string `json:"spelling,omitempty"` // create: how the outside input is spelled
	Unsaved  bool   `json:"unsaved,omitempty"`  // par1: the hostile entry is not saved in the parity volume set
	Empty    bool   `json:"empty,omitempty"`    // par1: the hostile entry declares a zero-length file
	UniName  bool   `json:"uni_name,omitempty"`  // par2: the hostile name is carried by an (optional) Unicode Filename packet; the file description holds a lossy ASCII name
	MainLast bool   `json:"main_last,omitempty"` // par2: the main packet comes after the file description and checksum packets in every file
}

const nest = "l1/l2/l3/l4/l5/arch"

func buildTree(root string) {
	files := map[string][]byte{
		"sentinel.txt":                 []byte("root sentinel"),
		"x":                            []byte("canary x at root"),
		"abs-target":                   []byte("canary absolute target"),
		"l1/x":                         []byte("canary l1"),
		"l1/l2/x":                      []byte("canary l2"),
		"l1/l2/l3/x":                   []byte("canary l3"),
		"l1/l2/l3/l4/x":                []byte("canary l4"),
		"l1/l2/l3/l4/l5/x":             []byte("canary l5 (parent of the archive directory)"),
		"l1/l2/l3/l4/l5/sibling/x":     []byte("canary sibling"),
		"l1/l2/l3/l4/l5/sibling/y.dat": []byte("canary sibling y"),
		"l1/l2/l3/l4/l5/arch-old/y.dat": []byte("canary in a sibling whose name starts with the archive directory's name"),
		"l1/l2/l3/l4/l5/arch2/z.dat":    []byte("canary arch2"),
		"l1/l2/l3/l4/l5/arch/a/keep":   []byte("sub-directory inside the archive directory"),
		"l1/l2/l3/l4/l5/arch/sub/keep": []byte("another"),
	}
	fsx.WriteTree(root, files)
	// a symbolic link inside the archive directory that points to the directory itself: a name that is harmless when it is
	// normalised lexically ("lnk/../x" is "x") leaves the directory when the kernel resolves it ("lnk/.." is the parent).
	// (Links that themselves point outside the tree are the user's business and not part of the property.)
	os.Symlink(".", filepath.Join(root, nest, "lnk"))
}

func content(i int) []byte {
	b := make([]byte, 9+i*4)
	for k := range b {
		b[k] = byte('A' + i*7 + k)
	}
	return b
}

func inside(rel string) bool { return rel == nest || strings.HasPrefix(rel, nest+"/") }

func check(c Case) (string, bool) {
	root := run.Scratch("c15")
	defer os.RemoveAll(root)
	buildTree(root)
	arch := filepath.Join(root, nest)
	hostile := strings.ReplaceAll(c.Name, "{ROOT}", root)
	names := []string{"good1.dat", "good2.dat", "good3.dat"}
	names[c.Pos%3] = hostile
	if c.Name2 != "" {
		names[(c.Pos+1)%3] = strings.ReplaceAll(c.Name2, "{ROOT}", root)
	}
	originals := [][]byte{content(0), content(1), content(2)}
	allowedContent := func(b []byte) bool {
		for _, o := range originals {
			if bytes.Equal(o, b) {
				return true
			}
		}
		return false
	}
	naive := false // would the name resolve outside if joined naively?
	for _, n := range names {
		j := filepath.Join(arch, strings.ReplaceAll(n, "\\", "/"))
		if filepath.IsAbs(n) || !strings.HasPrefix(j, arch+"/") {
			naive = true
		}
	}
	var idx string
	switch c.Format {
	case "par2":
		set := &par2ref.Set{SliceSize: 4, Client: "verif hostile writer"}
		for i, n := range names {
			f := par2ref.NewSetFile(n, originals[i], 4)
			if n == hostile && c.Empty {
				// a zero-length entry (as other clients write for empty files): no slices, no checksum pairs
				f = par2ref.NewSetFile(n, []byte{}, 4)
				originals[i] = []byte{}
			}
			if c.NulInID {
				// gopar computes the ID over the name up to the first NUL
				nm := n
				if k := strings.IndexByte(nm, 0); k >= 0 {
					nm = nm[:k]
				}
				f.ID = par2ref.FileID(f.MD516k, f.Length, []byte(nm))
			}
			set.Files = append(set.Files, f)
		}
		// sort by ID
		for i := range set.Files {
			for j := i + 1; j < len(set.Files); j++ {
				if par2ref.IDLess(set.Files[j].ID, set.Files[i].ID) {
					set.Files[i], set.Files[j] = set.Files[j], set.Files[i]
				}
			}
		}
		var uni []par2ref.Packet
		if c.UniName {
			// the description of the hostile entry carries a lossy ASCII rendering; the real name travels in a Unicode Filename packet
			for i := range set.Files {
				if set.Files[i].Name == hostile {
					var ty [16]byte
					copy(ty[:], "PAR 2.0\x00UniFileN")
					lossy := "lossy-\xe9-name.dat"
					set.Files[i].Name = lossy
					set.Files[i].ID = par2ref.FileID(set.Files[i].MD516k, set.Files[i].Length, []byte(lossy))
					body := append(append([]byte{}, set.Files[i].ID[:]...), par2ref.Pad4(par1ref.UTF16LE(hostile))...)
					uni = append(uni, par2ref.Packet{Type: ty, Body: body})
				}
			}
			for i := range set.Files {
				for j := i + 1; j < len(set.Files); j++ {
					if par2ref.IDLess(set.Files[j].ID, set.Files[i].ID) {
						set.Files[i], set.Files[j] = set.Files[j], set.Files[i]
					}
				}
			}
			for k := range uni {
				uni[k].SetID = set.SetID()
			}
		}
		crit := set.CriticalPackets()
		crit = append(crit, uni...)
		if c.Empty {
			var kept []par2ref.Packet
			for _, p := range crit {
				if p.Type == par2ref.TypeIFSC && len(p.Body) == 16 {
					continue
				}
				kept = append(kept, p)
			}
			crit = kept
		}
		if c.MainLast {
			// packet order is free: descriptions first, the main packet last
			var mains, others []par2ref.Packet
			for _, p := range crit {
				if p.Type == par2ref.TypeMain {
					mains = append(mains, p)
				} else {
					others = append(others, p)
				}
			}
			crit = append(others, mains...)
		}
		idx = filepath.Join(arch, "set.par2")
		os.WriteFile(idx, par2ref.EncodeAll(append([]par2ref.Packet{set.CreatorPacket()}, crit...)), 0o644)
		ps := append([]par2ref.Packet{set.CreatorPacket()}, crit...)
		for e := 0; e < 14; e++ {
			ps = append(ps, set.RecoveryPacket(e))
		}
		os.WriteFile(filepath.Join(arch, "set.vol00+14.par2"), par2ref.EncodeAll(ps), 0o644)
	case "par1":
		var es []par1ref.Entry
		var saved [][]byte
		for i, n := range names {
			if n == hostile && c.Unsaved {
				d := originals[i]
				if c.Empty {
					d = []byte{}
				}
				es = append(es, par1ref.NewEntry(n, d, false))
				continue
			}
			es = append(es, par1ref.NewEntry(n, originals[i], true))
			saved = append(saved, originals[i])
		}
		if c.Unsaved {
			originals = append(originals, []byte{})
		}
		sh := par1ref.SetHash(es)
		idx = filepath.Join(arch, "set.par")
		os.WriteFile(idx, par1ref.Volume{SetHash: sh, Entries: es}.Encode(), 0o644)
		for v := 1; v <= 3; v++ {
			os.WriteFile(filepath.Join(arch, fmt.Sprintf("set.p%02d", v)), par1ref.Volume{SetHash: sh, VolNumber: uint64(v), Entries: es, Data: par1ref.Parity(saved, v)}.Encode(), 0o644)
		}
	case "create":
		// PAR2 Create must refuse inputs outside the index file's directory tree
		in := filepath.Join(arch, "in.dat")
		os.WriteFile(in, content(1), 0o644)
		outside := map[string]string{
			"abs-parent":   filepath.Join(root, "l1/l2/l3/l4/l5/x"),
			"abs-sibling":  filepath.Join(root, "l1/l2/l3/l4/l5/sibling/y.dat"),
			"abs-root":     filepath.Join(root, "sentinel.txt"),
			"dotdot":       filepath.Join(arch, "..", "x"),
			"dotdot-deep":  arch + "/a/../../sibling/y.dat",
			"rel-dotdot":   "REL:../x",
			"rel-sibling":  "REL:../sibling/y.dat",
			"rel-up-down":  "REL:../../l5/x",
			"double-slash": arch + "//..//x",
			"prefix-sibling":  filepath.Join(root, "l1/l2/l3/l4/l5/arch-old/y.dat"),
			"prefix-sibling2": filepath.Join(root, "l1/l2/l3/l4/l5/arch2/z.dat"),
			"rel-prefix":      "REL:../arch-old/y.dat",
			"symlink-dotdot":  arch + "/lnk/../x",
			"rel-symlink":     "REL:lnk/../x",
		}[c.Spelling]
		before, _ := fsx.Take(root)
		var err error
		cwd, _ := os.Getwd()
		if strings.HasPrefix(outside, "REL:") {
			os.Chdir(arch)
			outside = outside[4:]
		}
		pan, msg := run.Safe(func() {
			err = par2.Create(filepath.Join(arch, "set.par2"), []string{in, outside}, par2.CreateOptions{SliceByteCount: 4, NumParityShards: 2, NumGoroutines: 1})
		})
		os.Chdir(cwd)
		if pan {
			return "Create panicked: " + msg, true
		}
		after, _ := fsx.Take(root)
		if err == nil {
			return fmt.Sprintf("PAR2 Create accepted an input outside the index file's directory tree (%s)", c.Spelling), true
		}
		if d := fsx.Diff(before, after); len(d) > 0 {
			return "Create refused the input but changed the filesystem: " + fsx.Describe(d), true
		}
		return "", true
	}
	if c.Present {
		for i, n := range names {
			if n != hostile && n != names[(c.Pos+1)%3] || (c.Name2 == "" && n != hostile) {
				os.WriteFile(filepath.Join(arch, n), originals[i], 0o644)
			}
		}
	}
	fsx.StampTree(root)
	before, _ := fsx.Take(root)
	var err error
	pan, msg := run.Safe(func() {
		if c.Format == "par2" {
			_, err = par2.Verify(idx, par2.VerifyOptions{NumGoroutines: 1})
			_, err = par2.Repair(idx, par2.RepairOptions{NumGoroutines: 1})
		} else {
			_, err = par1.Verify(idx, par1.VerifyOptions{})
			_, err = par1.Repair(idx, par1.RepairOptions{})
		}
	})
	_ = err
	after, _ := fsx.Take(root)
	for _, ch := range fsx.Diff(before, after) {
		if !inside(ch.Path) {
			return fmt.Sprintf("%s outside the archive's directory: %s (declared name %q)", ch.Kind, ch.Path, c.Name), naive
		}
		rel := strings.TrimPrefix(ch.Path, nest+"/")
		if c.Format == "par1" && strings.Contains(rel, "/") {
			return fmt.Sprintf("PAR1 %s %q below a sub-directory of the archive's directory", ch.Kind, rel), naive
		}
		if ch.Kind == "deleted" || ch.Kind == "type" || after[ch.Path].IsDir {
			return fmt.Sprintf("%s %s inside the archive directory", ch.Kind, ch.Path), naive
		}
		if !allowedContent(after[ch.Path].Data) {
			return fmt.Sprintf("wrote %q with content that is not a protected original", ch.Path), naive
		}
	}
	if pan {
		return "panic: " + msg, naive
	}
	return "", naive
}

var corpus = []string{
	"{ROOT}/abs-target", "{ROOT}/l1/x", "/{ROOT}/abs-target", "..", "../x", "../sibling/x", "../sibling/new.dat", "a/../../x", "a/b/../../../x", "a/../../sibling/y.dat",
	"../../x", "../../../x", "../../../../x", "./x", "./../x", ".", "", "x/", "a/", "//x", "/", "//", "..\\x", "a\\..\\..\\x", "..\\..\\x",
	"x\x00../y", "../x\x00", "\x00", "...", ".../x", "..../x", "a/./../../x", "a//../..//x", "sub/../../x", "sub/../../../l5/x",
	"‥/x", "．．/x", "..\u2215x", "..%2fx", ". ./x", ".. /x", " ../x", "../ x", "a/..", "a/../..", "a/../../", "../arch/../x",
	strings.Repeat("../", 4) + "x", strings.Repeat("a/", 40) + strings.Repeat("../", 41) + "x", strings.Repeat("n", 300), "../" + strings.Repeat("n", 300),
	strings.Repeat("a", 210) + "/../../x", strings.Repeat("b/", 120) + strings.Repeat("../", 121) + "x", strings.Repeat("c", 255) + "/../../sibling/x",
	"lnk/../x", "lnk/../victim.txt", "lnk/../../x", "a/../lnk/../x", "lnk/lnk/../x",
	"-", "~", "~/x", "$HOME/x", "c:/x", "c:\\x", "\\\\host\\share\\x", "con", "good1.dat/../../x", ".hidden", ".hidden/x", "..hidden", "sub/..hidden",
}

func TestCheck(t *testing.T) {
	cfg := run.Load("C15")
	rec := run.NewRec(cfg)
	defer rec.Finish(t)
	do := func(c Case) bool {
		rec.Eval()
		rec.Class("format=" + c.Format)
		msg, naive := check(c)
		if msg != "" {
			return rec.Fail(c.Format, c, "", msg) == ""
		}
		if naive {
			rec.NonTrivial(c)
		}
		return true
	}
	if cfg.Replay != "" {
		if rec.ReplayFuzz(cfg.Replay, fuzzOracles) {
			return
		}
		var c Case
		if _, err := run.LoadReplay(cfg.Replay, &c); err != nil {
			t.Fatal(err)
		}
		do(c)
		return
	}
	for _, f := range cfg.RegressFiles() {
		if cfg.Shard == 0 && rec.ReplayFuzz(f, fuzzOracles) {
			continue
		}
		var c Case
		if _, err := run.LoadReplay(f, &c); err == nil && cfg.Shard == 0 {
			do(c)
		}
	}
	idx := 0
	for _, format := range []string{"par2", "par1"} {
		for _, n := range corpus {
			for pos := 0; pos < 3; pos++ {
				for _, present := range []bool{false, true} {
					idx++
					if !cfg.Mine(idx) {
						continue
					}
					do(Case{Format: format, Name: n, Pos: pos, Present: present})
					if format == "par2" {
						do(Case{Format: format, Name: n, Pos: pos, Present: present, Empty: true})
						do(Case{Format: format, Name: n, Pos: pos, Present: present, MainLast: true})
						if pos == 0 {
							do(Case{Format: format, Name: n, Pos: pos, Present: present, UniName: true})
						}
					}
					if format == "par1" {
						do(Case{Format: format, Name: n, Pos: pos, Present: present, Unsaved: true, Empty: true})
						do(Case{Format: format, Name: n, Pos: pos, Present: present, Unsaved: true})
					}
					if strings.Contains(n, "\x00") && format == "par2" {
						do(Case{Format: format, Name: n, Pos: pos, Present: present, NulInID: true})
					}
				}
			}
		}
	}
	for _, sp := range []string{"abs-parent", "abs-sibling", "abs-root", "dotdot", "dotdot-deep", "rel-dotdot", "rel-sibling", "rel-up-down", "double-slash", "prefix-sibling", "prefix-sibling2", "rel-prefix", "symlink-dotdot", "rel-symlink"} {
		idx++
		if cfg.Mine(idx) {
			do(Case{Format: "create", Spelling: sp})
		}
	}
	// pairs of hostile names (thorough: all pairs of a sub-corpus; quick: generated)
	cfg.SetRapid(cfg.N(300, 2500), 1)
	rapid.Check(t, func(rt *rapid.T) {
		c := Case{Format: rapid.SampledFrom([]string{"par2", "par1"}).Draw(rt, "format"), Name: rapid.SampledFrom(corpus).Draw(rt, "n1"), Name2: rapid.SampledFrom(corpus).Draw(rt, "n2"),
			Pos: rapid.IntRange(0, 2).Draw(rt, "pos"), Present: rapid.Bool().Draw(rt, "present")}
		if c.Name == c.Name2 {
			c.Name2 = ""
		}
		if !do(c) {
			rt.Fatalf("C15 failed")
		}
	})
	// generated names from path fragments
	frags := []string{"..", ".", "", "a", "sub", "x", "sibling", "\\", "..\\", "good1.dat", "l5", "arch", " ", "\x00"}
	cfg.SetRapid(cfg.N(400, 5000), 2)
	rapid.Check(t, func(rt *rapid.T) {
		parts := rapid.SliceOfN(rapid.SampledFrom(frags), 1, 7).Draw(rt, "parts")
		name := strings.Join(parts, "/")
		if rapid.IntRange(0, 5).Draw(rt, "abs") == 0 {
			name = "{ROOT}/" + name
		}
		c := Case{Format: rapid.SampledFrom([]string{"par2", "par1"}).Draw(rt, "format"), Name: name, Pos: rapid.IntRange(0, 2).Draw(rt, "pos"), Present: rapid.Bool().Draw(rt, "present"), NulInID: true}
		if !do(c) {
			rt.Fatalf("C15 failed")
		}
	})
}
