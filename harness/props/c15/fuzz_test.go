package c15

import (
	"encoding/json"
	"path/filepath"
	"strings"
	"testing"

	"verifharness/ref/run"
)

// decodeName turns fuzz bytes into a C15 case: one selector byte, then the declared name.
// The name is confined by construction to targets below the scratch root (names whose
// relative readings leave the scratch root are not run), and the fuzz workers of this property run without
// privileges: a broken code under test must not be able to damage the machine the check runs on.
func decodeName(data []byte) (Case, bool) {
	if len(data) < 1 {
		return Case{}, false
	}
	sel := data[0]
	name := string(data[1:])
	if len(name) > 600 {
		return Case{}, false
	}
	// every relative reading of the name (as it is, with backslashes as separators, cut at the first NUL; joined to the
	// archive directory or to the scratch root) must stay below the scratch root; absolute readings are harmless
	// because the workers have no privileges
	const symRoot = "/S0/S1/S2"
	symArch := symRoot + "/" + nest
	variants := []string{name, strings.ReplaceAll(name, "\\", "/")}
	for _, v := range variants[:2] {
		if k := strings.IndexByte(v, 0); k >= 0 {
			variants = append(variants, v[:k], v[k+1:])
		}
	}
	for _, v := range variants {
		v = strings.ReplaceAll(v, "{ROOT}", symRoot)
		for _, base := range []string{symArch, symRoot} {
			p := filepath.Join(base, v)
			if p != symRoot && !strings.HasPrefix(p, symRoot+"/") {
				return Case{}, false
			}
		}
	}
	c := Case{Format: "par2", Name: name, Pos: int(sel>>1) % 3, Present: sel&8 != 0}
	if sel&1 != 0 {
		c.Format = "par1"
	}
	c.MainLast = sel&64 != 0 && c.Format == "par2"
	c.UniName = sel&128 != 0 && c.Format == "par2"
	switch (sel >> 4) & 3 {
	case 1:
		c.Empty = true
		if c.Format == "par1" {
			c.Unsaved = true
		}
	case 2:
		if c.Format == "par1" {
			c.Unsaved = true
		} else {
			c.NulInID = true
		}
	}
	return c, true
}

func nameOracle(data []byte) (msg, key, class string, nontrivial bool) {
	c, ok := decodeName(data)
	if !ok {
		return "", "", "skipped", false
	}
	m, naive := check(c)
	return m, "", "format=" + c.Format, naive
}

var fuzzOracles = map[string]run.FuzzOracle{"FuzzName": nameOracle}

func FuzzName(f *testing.F) {
	for i, n := range corpus {
		f.Add(append([]byte{byte(i * 7)}, n...))
		f.Add(append([]byte{byte(i*7 + 1)}, n...))
	}
	run.Fuzz(f, "C15", nameOracle, func(data []byte) string {
		c, _ := decodeName(data)
		b, _ := json.Marshal(c)
		return string(b)
	})
}
