// C10: PAR1 files conform to the PAR 1.0 layout in both directions.
package c10

import (
	"bytes"
	"crypto/md5"
	"fmt"
	"os"
	"path/filepath"
	"sort"
	"testing"

	"github.com/akalin/gopar/par1"
	"pgregory.net/rapid"
	"verifharness/ref/fsx"
	"verifharness/ref/par1ref"
	"verifharness/ref/run"
	"verifharness/ref/scen"
)

// Case: Dir "writer" checks gopar's Create output; Dir "reader" feeds a reference-written set to gopar.
type Case struct {
	Dir      string          `json:"dir"`
	Files    []scen.FileSpec `json:"files"`
	NVol     int             `json:"nvol"`
	Saved    []bool          `json:"saved,omitempty"`   // reader: per entry, saved in the parity set
	Present  []bool          `json:"present,omitempty"` // reader: per non-saved entry, file exists on disk
	Comment  int             `json:"comment,omitempty"` // reader: comment length in the index volume
	Client   uint32          `json:"client,omitempty"`  // reader: generating-client bits in the version field
	Damage   []scen.Damage   `json:"damage,omitempty"`  // applied to the saved files (index into saved list)
	DelVols  []int           `json:"del_vols,omitempty"`
	DblCheck bool            `json:"double_check,omitempty"`
	Base     string          `json:"base,omitempty"` // index base name (default "set")
}

func baseOf(c Case) string {
	if c.Base == "" {
		return "set"
	}
	return c.Base
}

func checkWriter(c Case) string {
	root := run.Scratch("c10w")
	defer os.RemoveAll(root)
	dir := filepath.Join(root, "w")
	orig := map[string][]byte{}
	var paths []string
	var datas [][]byte
	for _, f := range c.Files {
		d := f.Content(64)
		orig[f.Name] = d
		datas = append(datas, d)
		paths = append(paths, filepath.Join(dir, f.Name))
	}
	fsx.WriteTree(dir, orig)
	var err error
	if p, msg := run.Safe(func() {
		err = par1.Create(filepath.Join(dir, baseOf(c)+".par"), paths, par1.CreateOptions{NumParityFiles: c.NVol})
	}); p {
		return "Create panicked: " + msg
	}
	if err != nil {
		return fmt.Sprintf("Create failed: %v", err)
	}
	var setIn []byte
	for _, d := range datas {
		h := md5.Sum(d)
		setIn = append(setIn, h[:]...)
	}
	wantSet := md5.Sum(setIn)
	for v := 0; v <= c.NVol; v++ {
		name := baseOf(c) + ".par"
		if v > 0 {
			name = fmt.Sprintf("%s.p%02d", baseOf(c), v)
		}
		b, err := os.ReadFile(filepath.Join(dir, name))
		if err != nil {
			return fmt.Sprintf("Create did not write %s", name)
		}
		p, err := par1ref.Parse(b)
		if err != nil {
			return fmt.Sprintf("%s does not conform to the PAR 1.0 layout: %v", name, err)
		}
		if p.Version != 0x00010000 {
			return fmt.Sprintf("%s: version field %#x, want 0x00010000", name, p.Version)
		}
		if p.VolNumber != uint64(v) {
			return fmt.Sprintf("%s: volume number %d, want %d", name, p.VolNumber, v)
		}
		if p.SetHash != wantSet {
			return name + ": set hash is not MD5 of the MD5s of the saved files in list order"
		}
		if int(p.FileCount) != len(c.Files) {
			return fmt.Sprintf("%s: file count %d, want %d", name, p.FileCount, len(c.Files))
		}
		for i, e := range p.Entries {
			d := datas[i]
			if e.Status&1 == 0 {
				return fmt.Sprintf("%s: entry %d not marked as saved in the parity volume set", name, i)
			}
			if e.Size != uint64(len(d)) || e.MD5 != md5.Sum(d) || e.MD516k != par1ref.Hash16k(d) {
				return fmt.Sprintf("%s: entry %d size/hashes do not match the input file", name, i)
			}
			if !bytes.Equal(e.NameRaw, par1ref.UTF16LE(c.Files[i].Name)) {
				return fmt.Sprintf("%s: entry %d name is not the UTF-16LE encoding of %q", name, i, c.Files[i].Name)
			}
		}
		if v == 0 {
			if len(p.Data) != 0 {
				return "index volume carries data although no comment was given"
			}
		} else if !bytes.Equal(p.Data, par1ref.Parity(datas, v)) {
			return fmt.Sprintf("%s: parity data differs from sum_i i^(v-1)*file_i over GF(2^8)/0x11D", name)
		}
	}
	return ""
}

func checkReader(c Case) (msg, key string, expect string) {
	root := run.Scratch("c10r")
	defer os.RemoveAll(root)
	dir := filepath.Join(root, "w")
	os.MkdirAll(dir, 0o755)
	var entries []par1ref.Entry
	var savedNames []string
	var savedData [][]byte
	savedOrig := map[string][]byte{}
	others := map[string][]byte{}
	ns := 0
	nonSavedBeforeSaved := false
	seenNonSaved := false
	for i, f := range c.Files {
		d := f.Content(64)
		saved := i >= len(c.Saved) || c.Saved[i]
		entries = append(entries, par1ref.NewEntry(f.Name, d, saved))
		if saved {
			savedNames = append(savedNames, f.Name)
			savedData = append(savedData, d)
			savedOrig[f.Name] = d
			if seenNonSaved {
				nonSavedBeforeSaved = true
			}
		} else {
			seenNonSaved = true
			if ns < len(c.Present) && c.Present[ns] {
				others[f.Name] = d
			}
			ns++
		}
	}
	maxSaved := 0
	for _, d := range savedData {
		if len(d) > maxSaved {
			maxSaved = len(d)
		}
	}
	if maxSaved == 0 {
		// no saved file, or only empty ones: outside the quantifier (nothing to protect)
		return "", "", "skip"
	}
	fsx.WriteTree(dir, savedOrig)
	fsx.WriteTree(dir, others)
	comment := make([]byte, c.Comment)
	for i := range comment {
		comment[i] = byte(i*7 + 33)
	}
	ver := uint64(0x00010000) | uint64(c.Client)<<32
	sh := par1ref.SetHash(entries)
	os.WriteFile(filepath.Join(dir, baseOf(c)+".par"), par1ref.Volume{Version: ver, SetHash: sh, Entries: entries, Data: comment}.Encode(), 0o644)
	del := map[int]bool{}
	for _, v := range c.DelVols {
		del[v] = true
	}
	var vols []int
	for v := 1; v <= c.NVol; v++ {
		if del[v] {
			continue
		}
		vols = append(vols, v)
		os.WriteFile(filepath.Join(dir, fmt.Sprintf("%s.p%02d", baseOf(c), v)), par1ref.Volume{Version: ver, SetHash: sh, VolNumber: uint64(v), Entries: entries, Data: par1ref.Parity(savedData, v)}.Encode(), 0o644)
	}
	state := map[string][]byte{}
	for n, d := range savedOrig {
		state[n] = d
	}
	for _, d := range c.Damage {
		d.Apply(savedNames, state)
	}
	var unusable []int
	for i, n := range savedNames {
		d, ok := state[n]
		if ok {
			os.WriteFile(filepath.Join(dir, n), d, 0o644)
		} else {
			os.Remove(filepath.Join(dir, n))
		}
		if !ok || !bytes.Equal(d, savedOrig[n]) {
			unusable = append(unusable, i)
		}
	}
	if nonSavedBeforeSaved && len(unusable) > 0 {
		key = "D9-par1-repair-indexes-entries-by-shard"
	}
	fsx.StampTree(dir)
	pre, _ := fsx.Take(dir)
	idx := filepath.Join(dir, baseOf(c)+".par")
	var vr par1.VerifyResult
	var err error
	if p, m := run.Safe(func() { vr, err = par1.Verify(idx, par1.VerifyOptions{VerifyAllData: true}) }); p {
		return "Verify panicked: " + m, key, ""
	}
	if err != nil {
		return fmt.Sprintf("Verify failed on a conformant set: %v", err), key, ""
	}
	fc := vr.FileCounts
	if fc.UnusableDataFileCount != len(unusable) || fc.UsableDataFileCount != len(savedNames)-len(unusable) || fc.UsableParityFileCount != len(vols) {
		return fmt.Sprintf("Verify counts %+v; truth: %d/%d usable/unusable saved files, %d volumes", fc, len(savedNames)-len(unusable), len(unusable), len(vols)), key, ""
	}
	if len(unusable) == 0 && len(vols) == c.NVol && !vr.AllDataOk {
		return "untouched conformant set does not pass the full parity check", key, ""
	}
	var rr par1.RepairResult
	if p, m := run.Safe(func() { rr, err = par1.Repair(idx, par1.RepairOptions{DoubleCheck: c.DblCheck}) }); p {
		return "Repair panicked: " + m, key, ""
	}
	final, _ := fsx.Take(dir)
	enough, nonsing := par1ref.Solvable(unusable, vols)
	switch {
	case len(unusable) == 0:
		expect = "nothing"
	case !enough:
		expect = "notenough"
	case !nonsing:
		expect = "singular"
	default:
		expect = "ok"
	}
	allOK := true
	for n, d := range savedOrig {
		if e, ok := final[n]; !ok || !bytes.Equal(e.Data, d) {
			allOK = false
		}
	}
	if err == nil && !allOK {
		return "Repair returned nil but a saved file is not restored", key, expect
	}
	if (expect == "ok" || expect == "nothing") && err != nil {
		return fmt.Sprintf("Repair failed (%v) on a conformant set with %d unusable files and volumes %v", err, len(unusable), vols), key, expect
	}
	if (expect == "notenough" || expect == "singular") && err == nil {
		return "Repair returned nil although outcome must be " + expect, key, expect
	}
	// writes: only saved files with their original content
	for _, ch := range fsx.Diff(pre, final) {
		d, ok := savedOrig[ch.Path]
		if !ok || ch.Kind == "deleted" || !bytes.Equal(final[ch.Path].Data, d) {
			return fmt.Sprintf("Repair changed %q (%s) which is not a restored saved file", ch.Path, ch.Kind), key, expect
		}
	}
	_ = rr
	return "", "", expect
}

func genReader(t *rapid.T) Case {
	c := Case{Dir: "reader"}
	c.Files = scen.GenFiles1(t, 8, 20000)
	c.NVol = rapid.IntRange(1, 5).Draw(t, "nvol")
	for range c.Files {
		c.Saved = append(c.Saved, rapid.IntRange(0, 3).Draw(t, "saved") > 0)
		c.Present = append(c.Present, rapid.Bool().Draw(t, "present"))
	}
	// at least one saved, non-empty file
	for i, f := range c.Files {
		if f.Size > 0 {
			c.Saved[i] = true
			break
		}
	}
	c.Comment = rapid.SampledFrom([]int{0, 0, 1, 2, 17, 256, 5000}).Draw(t, "comment")
	c.Client = rapid.SampledFrom([]uint32{0, 0, 1, 0x02000900, 0xffffffff}).Draw(t, "client")
	nd := rapid.IntRange(0, 3).Draw(t, "ndamage")
	for i := 0; i < nd; i++ {
		c.Damage = append(c.Damage, scen.GenDamage(t, len(c.Files), scen.MaxLen(c.Files), 64, []string{"delete", "delete", "flip", "truncate", "append"}))
	}
	if rapid.Bool().Draw(t, "delvols") {
		c.DelVols = rapid.SliceOfDistinct(rapid.IntRange(1, c.NVol), rapid.ID[int]).Draw(t, "dv")
	}
	c.DblCheck = rapid.Bool().Draw(t, "dc")
	c.Base = rapid.SampledFrom(scen.Bases1).Draw(t, "base")
	return c
}

func TestCheck(t *testing.T) {
	cfg := run.Load("C10")
	rec := run.NewRec(cfg)
	defer rec.Finish(t)
	do := func(c Case) bool {
		rec.Eval()
		rec.Class("direction=" + c.Dir)
		if c.Dir == "writer" {
			if msg := checkWriter(c); msg != "" {
				return rec.Fail("writer", c, "", msg) == ""
			}
			sizes := map[int]bool{}
			for _, f := range c.Files {
				sizes[f.Size] = true
			}
			if len(c.Files) >= 2 && len(sizes) >= 2 {
				rec.NonTrivial(c)
			}
			return true
		}
		msg, key, expect := checkReader(c)
		rec.Class("reader-expect=" + expect)
		if c.Comment > 0 {
			rec.Class("comment")
		}
		if msg != "" {
			return rec.Fail("reader", c, key, msg) == ""
		}
		nonSavedFirst := false
		seenNS := false
		for i := range c.Files {
			if i < len(c.Saved) && !c.Saved[i] {
				seenNS = true
			} else if seenNS {
				nonSavedFirst = true
			}
		}
		if nonSavedFirst {
			rec.Class("non-saved-entry-before-saved")
		}
		if nonSavedFirst && expect == "ok" {
			rec.NonTrivial(c)
		}
		return true
	}
	if cfg.Replay != "" {
		if rec.ReplayFuzzRapid(t, cfg.Replay, fuzzProps) {
			return
		}
		var c Case
		if _, err := run.LoadReplay(cfg.Replay, &c); err != nil {
			t.Fatal(err)
		}
		do(c)
		return
	}
	for _, f := range cfg.RegressFiles() {
		var c Case
		if _, err := run.LoadReplay(f, &c); err == nil && cfg.Shard == 0 {
			do(c)
		}
	}
	// every placement of one non-saved entry among 1..3 saved ones, each saved file deleted in turn
	idx := 0
	for nsaved := 1; nsaved <= 3; nsaved++ {
		for pos := 0; pos <= nsaved; pos++ {
			for miss := 0; miss < nsaved; miss++ {
				for _, present := range []bool{false, true} {
					idx++
					if !cfg.Mine(idx) {
						continue
					}
					c := Case{Dir: "reader", NVol: 2, Comment: idx % 3 * 9}
					for i := 0; i <= nsaved; i++ {
						c.Files = append(c.Files, scen.FileSpec{Name: fmt.Sprintf("e%d.bin", i), Size: 4 + 3*i, Kind: "random", Seed: uint64(i + 20)})
						c.Saved = append(c.Saved, i != pos)
					}
					c.Present = []bool{present}
					c.Damage = []scen.Damage{{Op: "delete", File: miss}}
					do(c)
				}
			}
		}
	}
	cfg.SetRapid(cfg.N(350, 5000), 1)
	rapid.Check(t, func(rt *rapid.T) {
		c := Case{Dir: "writer", Files: scen.GenFiles1(rt, 10, 40000)}
		c.NVol = rapid.IntRange(1, 8).Draw(rt, "nvol")
		c.Base = rapid.SampledFrom(scen.Bases1).Draw(rt, "base")
		if !do(c) {
			rt.Fatalf("C10 writer failed")
		}
	})
	cfg.SetRapid(cfg.N(500, 7000), 2)
	rapid.Check(t, func(rt *rapid.T) {
		if !do(genReader(rt)) {
			rt.Fatalf("C10 reader failed")
		}
	})
	sort.Ints(nil)
}
