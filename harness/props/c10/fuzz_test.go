package c10

import (
	"testing"

	"pgregory.net/rapid"
	"verifharness/ref/run"
)

// Coverage-guided stage: reference-written PAR1 sets (comments, entries not saved in the parity set, names, damage)
// from the generator of TestCheck, driven by the fuzzing engine's bytes.
func readerProp(rt *rapid.T) run.RapidVerdict {
	c := genReader(rt)
	msg, key, expect := checkReader(c)
	return run.RapidVerdict{Case: c, Kind: "reader", Msg: msg, Key: key, Class: "reader:" + expect, NonTrivial: len(c.Files) >= 2}
}

var fuzzProps = map[string]func(*rapid.T) run.RapidVerdict{"FuzzReader": readerProp}

func FuzzReader(f *testing.F) { run.FuzzRapid(f, "C10", readerProp) }
