package c16

import (
	"fmt"
	"os"
	"path/filepath"

	"github.com/akalin/gopar/par2"
	"verifharness/ref/model"
	"verifharness/ref/run"
	"verifharness/ref/scen"
)

// secondGenerationCase: a set is created and verified, then a file is edited in place beyond its first 16 KiB (same
// length, hence the same file ID and the same recovery-set ID) and the set is created again; afterwards bytes are
// inserted near the start of the file.  All in one process.  Verify must find the shifted slices of the *second*
// generation: nothing learned about the first generation may be reused.
func secondGenerationCase(k int) string {
	root := run.Scratch("c16gen")
	defer os.RemoveAll(root)
	S := []int{1000, 512, 2048}[k%3]
	size := 20000 + 300*k
	gen1 := (scen.FileSpec{Name: "a", Size: size, Kind: "share16k", Seed: uint64(3 + k)}).Content(S)
	gen2 := (scen.FileSpec{Name: "a", Size: size, Kind: "share16k", Seed: uint64(6 + k)}).Content(S) // same first 16 KiB, other tail
	other := (scen.FileSpec{Name: "b", Size: 700, Kind: "random", Seed: uint64(9 + k)}).Content(S)
	pa, pb := filepath.Join(root, "a.dat"), filepath.Join(root, "sub", "b.bin")
	os.MkdirAll(filepath.Join(root, "sub"), 0o755)
	os.WriteFile(pb, other, 0o644)
	idx := filepath.Join(root, "set.par2")
	for g, content := range [][]byte{gen1, gen2} {
		os.WriteFile(pa, content, 0o644)
		if err := par2.Create(idx, []string{pa, pb}, par2.CreateOptions{SliceByteCount: S, NumParityShards: 2, NumGoroutines: 1}); err != nil {
			return fmt.Sprintf("Create of generation %d failed: %v", g+1, err)
		}
		r, err := par2.Verify(idx, par2.VerifyOptions{NumGoroutines: 1})
		if err != nil || r.ShardCounts.RepairNeeded() {
			return fmt.Sprintf("generation %d, untouched: Verify err=%v counts=%+v", g+1, err, r.ShardCounts)
		}
	}
	ins := []byte{0xa1, 0xb2, 0xc3}
	damaged := append(append(append([]byte{}, gen2[:5]...), ins...), gen2[5:]...)
	os.WriteFile(pa, damaged, 0o644)
	orig := map[string][]byte{"a.dat": gen2, "sub/b.bin": other}
	loc := model.Locate(S, scen.ProtOrder(orig, S), map[string][]byte{"a.dat": damaged, "sub/b.bin": other})
	want := len(model.Missing(loc.May))
	r, err := par2.Verify(idx, par2.VerifyOptions{NumGoroutines: 1})
	if err != nil {
		return "Verify failed: " + err.Error()
	}
	if !loc.Ambiguous && r.ShardCounts.UnusableDataShardCount != want {
		return fmt.Sprintf("second generation of a set (same set ID, content changed beyond 16 KiB), 3 bytes inserted at offset 5: Verify counts %d unusable slices, %d are really absent", r.ShardCounts.UnusableDataShardCount, want)
	}
	if _, err := par2.Repair(idx, par2.RepairOptions{NumGoroutines: 1}); err != nil {
		return "Repair of the second generation failed although one slice is lost and two blocks exist: " + err.Error()
	}
	if b, _ := os.ReadFile(pa); string(b) != string(gen2) {
		return "Repair did not restore the second generation's content"
	}
	return ""
}
