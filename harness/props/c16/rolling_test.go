package c16

import (
	"fmt"
	"hash/crc32"

	"github.com/akalin/gopar/par2"
)

// rollingCase: the CRC-32 the slice search computes for every window position (first window directly, every further one
// by the constant-time update) equals the CRC-32 of that window computed directly.
func rollingCase(window, extra int, seed uint64) string {
	data := make([]byte, window+extra)
	s := seed*0x9E3779B97F4A7C15 + 1
	// the leading and trailing bytes matter for the update; the body is filled sparsely to keep huge windows cheap
	fill := func(lo, hi int) {
		for i := lo; i < hi && i < len(data); i++ {
			if i >= 0 {
				s ^= s << 13
				s ^= s >> 7
				s ^= s << 17
				data[i] = byte(s >> 9)
			}
		}
	}
	fill(0, 4096)
	fill(len(data)-4096, len(data))
	for o := 4096; o < len(data)-4096; o += 1 << 16 {
		fill(o, o+8)
	}
	got := par2.VerifRollingCRC32(window, data)
	if len(got) != extra+1 {
		return fmt.Sprintf("window %d: %d positions reported, want %d", window, len(got), extra+1)
	}
	for i, g := range got {
		if want := crc32.ChecksumIEEE(data[i : i+window]); g != want {
			return fmt.Sprintf("slice size %d: rolling CRC-32 at offset %d is %#08x, the window's CRC-32 is %#08x", window, i, g, want)
		}
	}
	return ""
}
