package c16

import (
	"fmt"
	"testing"

	"pgregory.net/rapid"
	"verifharness/ref/run"
	"verifharness/ref/scen"
)

// Coverage-guided stage: the edit generator of TestCheck (file shapes x one edit) driven by the fuzzing engine's bytes.
func editProp(rt *rapid.T) run.RapidVerdict {
	S := rapid.SampledFrom([]int{4, 8, 12, 16, 64, 100}).Draw(rt, "S")
	L := rapid.IntRange(1, 10*S).Draw(rt, "L")
	kind := rapid.SampledFrom([]string{"random", "random", "alpha", "repeat", "zerotail", "crczero", "slicezeros", "zeros"}).Draw(rt, "kind")
	files := []scen.FileSpec{{Name: "a.dat", Size: L, Kind: kind, Seed: rapid.Uint64Range(0, 1<<20).Draw(rt, "seed")}}
	if rapid.Bool().Draw(rt, "two") {
		files = append(files, scen.FileSpec{Name: "sub/b.dat", Size: rapid.IntRange(1, 6*S).Draw(rt, "L2"), Kind: rapid.SampledFrom([]string{"random", "repeat"}).Draw(rt, "kind2"), Seed: rapid.Uint64Range(0, 1<<20).Draw(rt, "seed2")})
	}
	e := scen.GenDamage(rt, len(files), L, S, []string{"insert", "remove", "insert", "remove", "copy", "swap", "move", "truncate", "appendzeros", "trimzeros"})
	c := Case{Files: files, Slice: S, Edit: e, G: rapid.IntRange(1, 3).Draw(rt, "g")}
	v := check(c)
	msg := v.msg
	if msg != "" {
		msg = fmt.Sprintf("%s [S=%d edit=%+v]", msg, c.Slice, c.Edit)
	}
	return run.RapidVerdict{Case: c, Kind: "edit", Msg: msg, Class: "edit=" + e.Op, NonTrivial: v.inside && v.exact}
}

var fuzzProps = map[string]func(*rapid.T) run.RapidVerdict{"FuzzEdit": editProp}

func FuzzEdit(f *testing.F) { run.FuzzRapid(f, "C16", editProp) }
