// C16: slices are found at any byte offset, so edits cost only the slices they touch.
package c16

import (
	"fmt"
	"testing"

	"github.com/akalin/gopar/rsec16"
	"pgregory.net/rapid"
	"verifharness/ref/model"
	"verifharness/ref/run"
	"verifharness/ref/scen"
)

// Case is an edit scenario; the recovery-block count is derived from the model (tight).
type Case struct {
	Files []scen.FileSpec `json:"files"`
	Slice int             `json:"slice"`
	Edit  scen.Damage     `json:"edit"`
	G     int             `json:"g"`
}

// touched computes directly which slices of the edited file overlap the edit.
func touched(L, S int, e scen.Damage) int {
	ns := (L + S - 1) / S
	n := 0
	for i := 0; i < ns; i++ {
		lo, hi := i*S, (i+1)*S
		if hi > L {
			hi = L
		}
		last := i == ns-1
		switch e.Op {
		case "insert":
			p := e.Off
			if p > L {
				p = L
			}
			if p > lo && p < hi {
				n++
			} else if last && p >= hi && L%S != 0 && p == L {
				// appended bytes separate the zero padding of the final partial slice from end of file
				n++
			}
		case "remove":
			p := e.Off
			if p > L {
				p = L
			}
			q := p + e.Len
			if q > L {
				q = L
			}
			if q <= p {
				continue
			}
			if p < hi && q > lo {
				n++
			} else if last && L%S != 0 && q <= lo {
				// the final partial slice moves but stays at end of file: still usable
			}
		}
	}
	return n
}

type verdict struct {
	msg    string
	k      int
	exact  bool
	inside bool
}

func check(c Case) verdict {
	var v verdict
	S := c.Slice
	orig := map[string][]byte{}
	var names []string
	for _, f := range c.Files {
		orig[f.Name] = f.Content(S)
		names = append(names, f.Name)
	}
	state := map[string][]byte{}
	for n, d := range orig {
		state[n] = d
	}
	c.Edit.Apply(names, state)
	prot := scen.ProtOrder(orig, S)
	loc := model.Locate(S, prot, state)
	v.exact = !loc.Ambiguous
	k := len(model.Missing(loc.May))
	kMust := len(model.Missing(loc.Must))
	v.k = k
	L := c.Files[c.Edit.File%len(c.Files)].Size
	tch := -1
	if c.Edit.Op == "insert" || c.Edit.Op == "remove" {
		tch = touched(L, S, c.Edit)
		p := c.Edit.Off
		v.inside = p > 0 && p < L && (L-p) >= S
	}

	runWith := func(nrec int, delAll bool) *scen.Obs {
		sc := scen.Case{Files: c.Files, Slice: S, NRec: nrec, GCreate: 1, GRepair: c.G, Damage: []scen.Damage{c.Edit}, DoubleCheck: nrec%2 == 0}
		if delAll {
			for i := 0; i < 8; i++ {
				sc.DelVolumes = append(sc.DelVolumes, i)
			}
		}
		return scen.Run(sc, false)
	}
	// run 1: exactly k recovery blocks (k=0: one block created, all recovery files deleted)
	var o *scen.Obs
	if k == 0 {
		o = runWith(1, true)
	} else {
		o = runWith(k, false)
	}
	defer o.Close()
	if o.CreateErr != nil || o.CreatePan != "" || o.VerifyPan != "" || o.RepairPan != "" || o.VerifyErr != nil {
		v.msg = fmt.Sprintf("unexpected failure: create=%v %s verify=%v %s repair panic=%s", o.CreateErr, o.CreatePan, o.VerifyErr, o.VerifyPan, o.RepairPan)
		return v
	}
	sc := o.VerifyRes.ShardCounts
	if sc.UnusableDataShardCount > kMust {
		v.msg = fmt.Sprintf("Verify counts %d unusable slices but at most %d slices are absent (every other original slice still exists contiguously, isolated, in the surviving files)", sc.UnusableDataShardCount, kMust)
		return v
	}
	if sc.UnusableDataShardCount < k {
		v.msg = fmt.Sprintf("Verify counts only %d unusable slices but %d slice contents are absent", sc.UnusableDataShardCount, k)
		return v
	}
	if v.exact && tch >= 0 && len(c.Files) == 1 && sc.UnusableDataShardCount > tch {
		v.msg = fmt.Sprintf("edit %+v overlaps %d slices but Verify counts %d unusable", c.Edit, tch, sc.UnusableDataShardCount)
		return v
	}
	if v.exact {
		// tight: exactly k blocks must suffice (exponents 0..k-1: classical Vandermonde, never singular)
		if o.RepairErr != nil {
			v.msg = fmt.Sprintf("Repair failed (%v) with exactly %d recovery blocks for %d unusable slices", o.RepairErr, k, k)
			return v
		}
		if ok, why := o.AllOriginal(o.Final); !ok {
			v.msg = "Repair returned nil but " + why
			return v
		}
		if k >= 1 {
			// run 2: k-1 blocks must fail with the not-enough-parity error
			var o2 *scen.Obs
			if k == 1 {
				o2 = runWith(1, true)
			} else {
				o2 = runWith(k-1, false)
			}
			defer o2.Close()
			if o2.RepairPan != "" {
				v.msg = "Repair panicked: " + o2.RepairPan
				return v
			}
			if _, ok := o2.RepairErr.(rsec16.NotEnoughParityShardsError); !ok {
				v.msg = fmt.Sprintf("with %d recovery blocks for %d unusable slices Repair must fail with the not-enough-parity error, got %v", k-1, k, o2.RepairErr)
				return v
			}
		}
	} else if o.RepairErr == nil {
		if ok, why := o.AllOriginal(o.Final); !ok {
			v.msg = "Repair returned nil but " + why
		}
	}
	return v
}

func TestCheck(t *testing.T) {
	cfg := run.Load("C16")
	rec := run.NewRec(cfg)
	defer rec.Finish(t)

	do := func(c Case) bool {
		rec.Eval()
		v := check(c)
		rec.Class("edit=" + c.Edit.Op)
		rec.Class(fmt.Sprintf("S=%d", c.Slice))
		if !v.exact {
			rec.Class("ambiguous(bounds-only)")
		}
		if v.k == 0 {
			rec.Class("no-slice-lost")
		}
		if v.msg != "" {
			return rec.Fail("edit", c, "", fmt.Sprintf("%s [S=%d edit=%+v]", v.msg, c.Slice, c.Edit)) == ""
		}
		if v.inside && v.exact {
			rec.NonTrivial(c)
		}
		return true
	}
	if cfg.Replay != "" {
		if rec.ReplayFuzzRapid(t, cfg.Replay, fuzzProps) {
			return
		}
		var c Case
		if _, err := run.LoadReplay(cfg.Replay, &c); err != nil {
			t.Fatal(err)
		}
		if c.G == -7 {
			rec.Eval()
			if msg := rollingCase(c.Slice, 6, 3); msg != "" {
				rec.Fail("rolling", c, "", msg)
			}
			return
		}
		if c.Slice < 0 {
			// fixed scenario number -1-Slice (no other parameters)
			rec.Eval()
			if msg := secondGenerationCase(-1 - c.Slice); msg != "" {
				rec.Fail("generation", c, "", msg)
			}
			return
		}
		do(c)
		return
	}
	for _, f := range cfg.RegressFiles() {
		var c Case
		if _, err := run.LoadReplay(f, &c); err == nil && cfg.Shard == 0 {
			do(c)
		}
	}

	type shape struct {
		S, L int
		kind string
	}
	shapes := []shape{{4, 7, "random"}, {4, 8, "random"}, {4, 30, "random"}, {8, 24, "random"}, {8, 29, "random"}, {12, 40, "random"}, {16, 64, "random"}, {16, 70, "random"}, {64, 96, "random"}, {8, 40, "alpha"}, {4, 24, "zerotail"}, {8, 40, "crczero"}, {8, 37, "crczero"}, {16, 100, "crczero"}, {8, 40, "crcwindow"}, {16, 84, "crcwindow"}}
	if cfg.Thorough() {
		shapes = append(shapes, shape{4, 96, "random"}, shape{8, 200, "random"}, shape{12, 100, "random"}, shape{16, 400, "random"}, shape{64, 400, "random"}, shape{64, 333, "random"},
			shape{16, 96, "alpha"}, shape{8, 64, "repeat"}, shape{16, 80, "slicezeros"}, shape{4, 41, "zeroshead"})
	}
	idx := 0
	// large slice sizes (the rolling checksum tables depend on the window size): sampled positions
	for bi, S := range []int{1024, 4096, 4100, 16384, 32768, 32772, 65536, 65540} {
		L := 5*S + []int{0, 3, 0, 77, 0, 100, 5, 100}[bi]
		if S > 16384 {
			L = 2*S + []int{0, 3, 0, 77, 0, 100, 5, 100}[bi]
		}
		files := []scen.FileSpec{{Name: "big.dat", Size: L, Kind: "random", Seed: uint64(300 + bi)}}
		for k, p := range []int{0, 1, S - 1, S, S + 1, S + S/2, 2 * S, 3*S + 5, 4*S - 1, 4 * S, L - 1, L} {
			for _, n := range []int{1, 3, S + 1} {
				for _, op := range []string{"insert", "remove"} {
					idx++
					if !cfg.Mine(idx) || (!cfg.Thorough() && (k+n)%2 == 1) || (!cfg.Thorough() && S > 16384 && k%3 != 1) {
						continue
					}
					do(Case{Files: files, Slice: S, Edit: scen.Damage{Op: op, File: 0, Off: p, Len: n, Seed: uint64(p + n)}, G: 2})
				}
			}
		}
	}
	// equal-sized removal and insertion beyond the first 16 KiB (length and 16k hash unchanged, everything in between shifted)
	{
		S := 512
		files := []scen.FileSpec{{Name: "big.dat", Size: 96 * S, Kind: "random", Seed: 401}}
		for k, pr := range [][3]int{{20000, 30000, 8}, {16384, 40000, 1}, {17000, 17600, 512}, {30000, 20000, 7}, {100, 30000, 8}, {20000, 48000, 513}} {
			idx++
			if cfg.Mine(idx) {
				do(Case{Files: files, Slice: S, Edit: scen.Damage{Op: "slide", File: 0, Off: pr[0], Other: pr[1], Len: pr[2], Seed: uint64(k)}, G: 2})
			}
		}
		// two identical files above 16 KiB: one copy is lost, its content is still there under the other name
		twins := []scen.FileSpec{{Name: "a.bin", Size: 20480, Kind: "random", Seed: 402}, {Name: "b.bin", Size: 20480, Kind: "random", Seed: 402}, {Name: "c.bin", Size: 700, Kind: "random", Seed: 403}}
		for k, e := range []scen.Damage{{Op: "delete", File: 0}, {Op: "delete", File: 1}, {Op: "move", File: 2, Other: 1}, {Op: "truncate", File: 1, Off: 16384}} {
			idx++
			if cfg.Mine(idx) {
				do(Case{Files: twins, Slice: S, Edit: e, G: 1 + k%2})
			}
		}
	}
	for si, sh := range shapes {
		lens := []int{1, 2, sh.S - 1, sh.S, sh.S + 1, 2*sh.S + 1}
		if cfg.Thorough() {
			lens = nil
			for n := 1; n <= 2*sh.S+1; n++ {
				if sh.S <= 16 || n <= 3 || n >= sh.S-2 && n <= sh.S+2 || n >= 2*sh.S-1 {
					lens = append(lens, n)
				}
			}
		}
		files := []scen.FileSpec{{Name: "a.dat", Size: sh.L, Kind: sh.kind, Seed: uint64(100 + si)}}
		for p := 0; p <= sh.L; p++ {
			for _, n := range lens {
				for _, op := range []string{"insert", "remove"} {
					idx++
					if !cfg.Mine(idx) {
						continue
					}
					do(Case{Files: files, Slice: sh.S, Edit: scen.Damage{Op: op, File: 0, Off: p, Len: n, Seed: uint64(p*31 + n)}, G: 1 + idx%3})
				}
			}
		}
		// a second file: content of A under B's name, swaps
		two := append([]scen.FileSpec{}, files...)
		two = append(two, scen.FileSpec{Name: "b.dat", Size: sh.L/2 + 3, Kind: "random", Seed: uint64(900 + si)})
		for _, e := range []scen.Damage{{Op: "copy", File: 0, Other: 1}, {Op: "copy", File: 1, Other: 0}, {Op: "swap", File: 0, Other: 1}, {Op: "move", File: 0, Other: 1}, {Op: "move", File: 1, Other: 0}} {
			idx++
			if cfg.Mine(idx) {
				do(Case{Files: two, Slice: sh.S, Edit: e, G: 2})
			}
		}
		for p := 0; p <= sh.L; p += 1 + sh.L/12 {
			idx++
			if cfg.Mine(idx) {
				do(Case{Files: two, Slice: sh.S, Edit: scen.Damage{Op: "insert", File: 0, Off: p, Len: sh.S + 1, Seed: uint64(p)}, G: 2})
			}
		}
	}
	rec.SetExtra("enumeration", "every edit position 0..L x insertion/removal lengths for each (slice size, length, content kind) shape")

	// the rolling CRC-32 of the slice search for window (= slice) sizes up to 2^20, thorough: 2^29 and 2^30 (bit counts beyond 32 bits)
	wins := []int{4, 5, 8, 12, 64, 1000, 4096, 65536, 1 << 20, 1<<20 + 4}
	if cfg.Thorough() {
		wins = append(wins, 1<<24, 1<<29, 1<<29+4, 1<<30)
	}
	for wi, w := range wins {
		if !cfg.Mine(7100 + wi) {
			continue
		}
		rec.Eval()
		rec.Class("rolling-crc-window")
		extra := 40
		if w >= 1<<24 {
			extra = 6
		}
		if msg := rollingCase(w, extra, uint64(wi+1)); msg != "" {
			rec.Fail("rolling", Case{Slice: w, G: -7}, "", msg)
		}
	}
	for k := 0; k < 3; k++ {
		if cfg.Mine(7000 + k) {
			rec.Eval()
			rec.Class("second-generation-with-the-same-set-id")
			if msg := secondGenerationCase(k); msg != "" {
				rec.Fail("generation", Case{Slice: -1 - k}, "", msg)
			}
		}
	}
	cfg.SetRapid(cfg.N(1000, 8000), 1)
	rapid.Check(t, func(rt *rapid.T) {
		S := rapid.SampledFrom([]int{4, 8, 12, 16, 64, 100}).Draw(rt, "S")
		L := rapid.IntRange(1, cfg.N(8, 12)*S).Draw(rt, "L")
		kind := rapid.SampledFrom([]string{"random", "random", "random", "alpha", "repeat", "zerotail", "crczero"}).Draw(rt, "kind")
		files := []scen.FileSpec{{Name: "a.dat", Size: L, Kind: kind, Seed: rapid.Uint64Range(0, 1<<20).Draw(rt, "seed")}}
		if rapid.Bool().Draw(rt, "two") {
			files = append(files, scen.FileSpec{Name: "sub/b.dat", Size: rapid.IntRange(1, 6*S).Draw(rt, "L2"), Kind: "random", Seed: rapid.Uint64Range(0, 1<<20).Draw(rt, "seed2")})
		}
		if len(files) == 2 && rapid.Bool().Draw(rt, "three") {
			files = append(files, scen.FileSpec{Name: "c c.dat", Size: rapid.IntRange(1, 4*S).Draw(rt, "L3"), Kind: "random", Seed: rapid.Uint64Range(0, 1<<20).Draw(rt, "seed3")})
		}
		e := scen.GenDamage(rt, len(files), L, S, []string{"insert", "remove", "insert", "remove", "copy", "swap", "move", "move"})
		if !do(Case{Files: files, Slice: S, Edit: e, G: rapid.IntRange(1, 4).Draw(rt, "g")}) {
			rt.Fatalf("C16 failed")
		}
	})
}
