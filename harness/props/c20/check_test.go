// C20: the par command's exit status reflects the outcome.
package c20

import (
	"bytes"
	"flag"
	"fmt"
	"os"
	"os/exec"
	"path/filepath"
	"strconv"
	"strings"
	"testing"

	"pgregory.net/rapid"
	"verifharness/ref/fsx"
	"verifharness/ref/model"
	"verifharness/ref/par1ref"
	"verifharness/ref/par2ref"
	"verifharness/ref/run"
	"verifharness/ref/scen"
)

// Case is one CLI scenario (or a usage error when Usage is set).
type Case struct {
	Format string          `json:"format"`
	Files  []scen.FileSpec `json:"files,omitempty"`
	Slice  int             `json:"slice,omitempty"`
	N      int             `json:"n,omitempty"`
	State  string          `json:"state,omitempty"`
	Spell  int             `json:"spell,omitempty"` // selects command spellings
	Cwd    string          `json:"cwd,omitempty"`   // set | parent | unrelated
	G      int             `json:"g,omitempty"`
	Flag   bool            `json:"flag,omitempty"` // -a (verify) / -doublecheck (repair)
	Usage  []string        `json:"usage,omitempty"`
	Base   string          `json:"base,omitempty"` // index base name (default "set")
	Dir    string          `json:"dir,omitempty"`  // name of the set directory (default "w")
	Prof   bool            `json:"prof,omitempty"` // the global option -cpuprofile <file> is given to every command
	Deep   bool            `json:"deep,omitempty"` // verify and repair run (with relative paths) from a working directory whose absolute path is longer than PATH_MAX
}

var spC = []string{"c", "create", "C", "Create", "CREATE"}
var spV = []string{"v", "verify", "V", "Verify", "vErIfY"}
var spR = []string{"r", "repair", "R", "Repair", "REPAIR"}

type res struct {
	code int
	out  string
}

func par(cwd string, args ...string) res {
	cmd := exec.Command(os.Getenv("VERIF_PAR_BIN"), args...)
	cmd.Dir = cwd
	var buf bytes.Buffer
	cmd.Stdout, cmd.Stderr = &buf, &buf
	err := cmd.Run()
	code := 0
	if err != nil {
		if ee, ok := err.(*exec.ExitError); ok {
			code = ee.ExitCode()
		} else {
			code = -1
		}
	}
	return res{code, buf.String()}
}

// parDeep runs par with the set's directory moved (for the duration of the command) to the bottom of a chain of directories
// whose absolute path is longer than PATH_MAX; every step of the way is a relative chdir / rename, as a user would get there.
func parDeep(base, setDir string, args ...string) res {
	comp := "d" + strings.Repeat("e", 239)
	// every chdir / mkdir / rename below takes a short relative (or the short absolute source) path
	script := `import os, sys, subprocess
binp, src, comp, args = sys.argv[1], sys.argv[2], sys.argv[3], sys.argv[4:]
for i in range(21):
    if not os.path.isdir(comp):
        os.mkdir(comp)
    os.chdir(comp)
os.rename(src, "w")
os.chdir("w")
rc = subprocess.call([binp] + args)
os.chdir("..")
os.rename("w", src)
sys.exit(rc if rc >= 0 else 128 - rc)
`
	cmd := exec.Command("python3", append([]string{"-c", script, os.Getenv("VERIF_PAR_BIN"), setDir, comp}, args...)...)
	cmd.Dir = base
	var buf bytes.Buffer
	cmd.Stdout, cmd.Stderr = &buf, &buf
	err := cmd.Run()
	code := 0
	if err != nil {
		if ee, ok := err.(*exec.ExitError); ok {
			code = ee.ExitCode()
		} else {
			code = -1
		}
	}
	return res{code, buf.String()}
}

func panicked(r res) bool {
	return strings.Contains(r.out, "panic:") || strings.Contains(r.out, "goroutine 1 [") || r.code == -1
}

func tail(s string) string {
	if len(s) > 500 {
		s = s[len(s)-500:]
	}
	return s
}

func check(c Case) (msg, key string) {
	root := run.Scratch("c20")
	defer os.RemoveAll(root)
	dn := c.Dir
	if dn == "" {
		dn = "w"
	}
	dir := filepath.Join(root, "p", dn)
	os.MkdirAll(dir, 0o755)
	os.MkdirAll(filepath.Join(root, "elsewhere"), 0o755)
	if c.Usage != nil {
		os.WriteFile(filepath.Join(dir, "a"), []byte("data"), 0o644)
		r := par(dir, c.Usage...)
		if panicked(r) {
			return "par panicked: " + tail(r.out), ""
		}
		if r.code != 3 {
			return fmt.Sprintf("usage error %q exited %d, want 3", c.Usage, r.code), ""
		}
		return "", ""
	}
	S := c.Slice
	ext := ".par2"
	if c.Format == "par1" {
		S, ext = 64, ".par"
	}
	orig := map[string][]byte{}
	var names []string
	for _, f := range c.Files {
		orig[f.Name] = f.Content(S)
		names = append(names, f.Name)
	}
	fsx.WriteTree(dir, orig)
	cwd := map[string]string{"set": dir, "parent": filepath.Join(root, "p"), "unrelated": filepath.Join(root, "elsewhere")}[c.Cwd]
	sp := func(p string) string {
		if c.Cwd == "unrelated" {
			return p
		}
		r, _ := filepath.Rel(cwd, p)
		return r
	}
	baseName := c.Base
	if baseName == "" {
		baseName = "set"
	}
	idxName := baseName + ext
	if c.State == "unknown-ext" {
		idxName = baseName + ".zip"
	}
	idx := sp(filepath.Join(dir, idxName))
	var global []string
	if c.G > 0 {
		global = []string{"-g", strconv.Itoa(c.G)}
	}
	if c.Prof {
		global = append(global, "-cpuprofile", filepath.Join(root, "cpu.prof"))
	}
	// create
	args := append(append([]string{}, global...), spC[c.Spell%len(spC)])
	if c.Format == "par2" {
		args = append(args, "-s", strconv.Itoa(c.Slice))
	}
	args = append(args, "-c", strconv.Itoa(c.N), idx)
	for _, n := range names {
		args = append(args, sp(filepath.Join(dir, n)))
	}
	if c.State == "create-obstructed" {
		// a directory sits where the first recovery file has to be written: create must not report success
		ob := baseName + ".vol00+01.par2"
		if c.Format == "par1" {
			ob = baseName + ".p01"
		}
		os.MkdirAll(filepath.Join(dir, ob), 0o755)
	}
	if i := strings.Index(baseName, ".vol"); i > 0 && c.Format == "par2" && c.State != "create-obstructed" && c.State != "unknown-ext" {
		// the base name looks like a recovery file of a shorter-named set, and that other, unrelated set exists beside it
		other := filepath.Join(dir, "zz-other", "o.dat")
		os.MkdirAll(filepath.Dir(other), 0o755)
		os.WriteFile(other, []byte("a file of an unrelated recovery set whose index name is a prefix of this set's index name"), 0o644)
		if ro := par(dir, "c", "-s", "8", "-c", "2", filepath.Join(dir, baseName[:i]+".par2"), other); ro.code != 0 {
			return fmt.Sprintf("creating the unrelated sibling set exited %d: %s", ro.code, tail(ro.out)), ""
		}
	}
	// everything that exists before this set is created is neither a protected file nor one of its recovery files
	preNames := map[string]bool{}
	if pre, err := fsx.Take(dir); err == nil {
		for n := range pre {
			preNames[n] = true
		}
	}
	if c.State == "stale-volumes" && c.Format == "par2" {
		// an older generation of the set - the first file had the same length and first 16 KiB (hence the same file and set
		// IDs) but another tail - was created with more recovery blocks; its higher-numbered recovery files stay behind
		old := c.Files[0]
		old.Seed += 3
		os.WriteFile(filepath.Join(dir, names[0]), old.Content(S), 0o644)
		oargs := append(append([]string{}, global...), "c", "-s", strconv.Itoa(c.Slice), "-c", strconv.Itoa(c.N+5), idx)
		for _, n := range names {
			oargs = append(oargs, sp(filepath.Join(dir, n)))
		}
		if ro := par(cwd, oargs...); ro.code != 0 {
			return fmt.Sprintf("par %v exited %d on valid inputs: %s", oargs, ro.code, tail(ro.out)), ""
		}
		os.WriteFile(filepath.Join(dir, names[0]), orig[names[0]], 0o644)
	}
	r := par(cwd, args...)
	if panicked(r) {
		return "par create panicked: " + tail(r.out), ""
	}
	if c.State == "create-obstructed" {
		if r.code == 0 || r.code == 3 {
			return fmt.Sprintf("create exited %d although a recovery file could not be written: %s", r.code, tail(r.out)), ""
		}
		return "", ""
	}
	if c.State == "unknown-ext" {
		if r.code == 0 || r.code == 3 {
			return fmt.Sprintf("create with an unknown extension exited %d", r.code), ""
		}
		for _, cmdw := range []string{spV[c.Spell%len(spV)], spR[c.Spell%len(spR)]} {
			r = par(cwd, cmdw, idx)
			if panicked(r) || r.code == 0 || r.code == 3 {
				return fmt.Sprintf("%s with an unknown extension exited %d: %s", cmdw, r.code, tail(r.out)), ""
			}
		}
		return "", ""
	}
	if r.code != 0 {
		return fmt.Sprintf("par %v exited %d on valid inputs: %s", args, r.code, tail(r.out)), ""
	}
	// exit 0 => the set exists and parses strictly
	snap, _ := fsx.Take(dir)
	var vols []string
	for n, e := range snap {
		if e.IsDir || orig[n] != nil || preNames[n] {
			continue
		}
		if _, isOrig := orig[n]; isOrig {
			continue
		}
		if c.Format == "par2" {
			if _, err := par2ref.ScanStrict(e.Data); err != nil {
				return fmt.Sprintf("create exited 0 but %s is not a valid packet stream: %v", n, err), ""
			}
		} else if _, err := par1ref.Parse(e.Data); err != nil {
			return fmt.Sprintf("create exited 0 but %s is not a valid PAR1 volume: %v", n, err), ""
		}
		if n != idxName {
			vols = append(vols, n)
		}
	}
	if _, ok := snap[idxName]; !ok || len(vols) == 0 {
		return "create exited 0 but the set was not written beside the given index path", ""
	}
	// state
	state := map[string][]byte{}
	for n, d := range orig {
		state[n] = d
	}
	expectV, expectR := 0, 0 // -1 means "any status except 0 and 3"
	slicesOf := func(n string) int {
		if c.Format == "par1" {
			return 1
		}
		return (len(orig[n]) + S - 1) / S
	}
	switch c.State {
	case "intact":
	case "repairable":
		delete(state, names[0])
		expectV, expectR = 1, 0
	case "repairable-flip":
		d := append([]byte{}, state[names[len(names)-1]]...)
		d[len(d)/2] ^= 0x80
		state[names[len(names)-1]] = d
		expectV, expectR = 1, 0
	case "relocation": // PAR2 only: every slice still findable, file wrong
		d := append([]byte{0x7e}, state[names[0]]...)
		state[names[0]] = d
		expectV, expectR = 1, 0
	case "dup-volume": // the only recovery file exists twice under different names: still one distinct block
		delete(state, names[0])
		if len(vols) > 0 {
			b, _ := os.ReadFile(filepath.Join(dir, vols[0]))
			os.WriteFile(filepath.Join(dir, strings.Replace(vols[0], ".par2", ".copy.par2", 1)), b, 0o644)
		}
		expectV, expectR = 1, 0
	case "grown-16k": // a file of exactly 16384 bytes with bytes appended (the first-16-KiB hash still matches)
		n := names[len(names)-1]
		state[n] = append(append([]byte{}, state[n]...), 0x41, 0x42)
		expectV, expectR = 1, 0
	case "length-only": // every slice intact and in place, only the length is wrong (bytes appended after a whole number of slices)
		n := names[len(names)-1]
		state[n] = append(append([]byte{}, state[n]...), 0x11, 0x22, 0x33)
		expectV, expectR = 1, 0
	case "stale-volumes": // more slices damaged than fresh blocks exist; stale blocks of an older generation (same set ID) lie beside them
		d := append([]byte{}, state[names[0]]...)
		for k := 0; k <= c.N; k++ {
			if o := 16384 + 100 + k*S; o < len(d) {
				d[o] ^= 0x01
			}
		}
		state[names[0]] = d
		expectV, expectR = -2, -2
	case "cut-in-zero-tail": // no recovery file left; the first file lost some of the zero bytes it ends with (its last slice is still found, zero-padded, at the end of file)
		d := state[names[0]]
		z := 0
		for z < len(d) && d[len(d)-1-z] == 0 {
			z++
		}
		if z > 0 {
			state[names[0]] = append([]byte{}, d[:len(d)-(z+1)/2]...)
		}
		for _, v := range vols {
			os.Remove(filepath.Join(dir, v))
		}
		expectV, expectR = 1, 0
	case "dup-slice": // one copy of a slice that occurs several times and one unique slice are overwritten; one recovery block
		d := append([]byte{}, state[names[0]]...)
		for k := S; k < 3*S && k < len(d); k++ {
			d[k] = byte(k*7 + 3)
		}
		state[names[0]] = d
		expectV, expectR = 1, 0
	case "par1-comment": // the index volume carries a comment (written by another client), a data file is missing
		if pv, err := par1ref.Parse(snap[idxName].Data); err == nil {
			comments := [][]byte{{0xff, 0xfe, 'h', 0, 'i'}, {0xff, 0xfe}, {0xfe, 0xff, 0, 'x', 0}, []byte("plain ascii comment, odd"), {0xff}, {0, 0, 0}, {0xff, 0xfe, 0x3d, 0xd8}}
			v := par1ref.Volume{Version: pv.Version, SetHash: pv.SetHash, VolNumber: pv.VolNumber, Entries: pv.Entries, Data: comments[c.Spell%len(comments)]}
			os.WriteFile(filepath.Join(dir, idxName), v.Encode(), 0o644)
		}
		delete(state, names[0])
		expectV, expectR = 1, 0
	case "swap":
		state[names[0]], state[names[1]] = state[names[1]], state[names[0]]
		expectV, expectR = 1, 0
	case "unrepairable":
		lost := 0
		for _, n := range names {
			delete(state, n)
			lost += slicesOf(n)
			if lost > c.N {
				break
			}
		}
		if lost > c.N {
			expectV, expectR = 2, 2
		} else {
			// the whole set fits into the recovery capacity: deleting everything is still repairable
			expectV, expectR = 1, 0
		}
	case "noparity-damaged":
		delete(state, names[0])
		for _, v := range vols {
			os.Remove(filepath.Join(dir, v))
		}
		expectV, expectR = 2, 2
	case "symlinked-volumes": // the recovery files live in a store directory and are symlinked beside the index
		delete(state, names[0])
		store := filepath.Join(root, "store")
		os.MkdirAll(store, 0o755)
		for _, v := range vols {
			if os.Rename(filepath.Join(dir, v), filepath.Join(store, v)) == nil {
				os.Symlink(filepath.Join(store, v), filepath.Join(dir, v))
			}
		}
		expectV, expectR = 1, 0
	case "all-lost": // every data file and every recovery file is gone, only the index is left
		for _, n := range names {
			delete(state, n)
		}
		for _, v := range vols {
			os.Remove(filepath.Join(dir, v))
		}
		expectV, expectR = 2, 2
	case "noparity-intact":
		for _, v := range vols {
			os.Remove(filepath.Join(dir, v))
		}
	case "damaged-index":
		b := append([]byte{}, snap[idxName].Data...)
		b[len(b)-2] ^= 0x08
		os.WriteFile(filepath.Join(dir, idxName), b, 0o644)
		expectV, expectR = -1, -1
	case "missing-index":
		os.Remove(filepath.Join(dir, idxName))
		expectV, expectR = -1, -1
	}
	if c.State == "stale-volumes" {
		// whether the stale blocks count as usable is not what C20 is about: only the generic rules apply
		// (no status 0 while a file is damaged, verify after a repair that exited 0 is clean)
	} else if expectV >= 0 {
		// derive the expected status from the model instead of from how the state was built
		// (generated files may share content, so "deleted" slices can still exist elsewhere)
		avail := c.N
		if c.State == "noparity-damaged" || c.State == "noparity-intact" || c.State == "all-lost" || c.State == "cut-in-zero-tail" {
			avail = 0
		}
		allIntact := true
		for n, d := range orig {
			if sd, ok := state[n]; !ok || !bytes.Equal(sd, d) {
				allIntact = false
			}
		}
		k := 0
		decided := true
		if c.Format == "par2" {
			loc := model.Locate(S, scen.ProtOrder(orig, S), state)
			k = len(model.Missing(loc.May))
			decided = !loc.Ambiguous
		} else {
			for n, d := range orig {
				if sd, ok := state[n]; !ok || !bytes.Equal(sd, d) {
					k++
				}
			}
		}
		switch {
		case allIntact:
			expectV, expectR = 0, 0
		case !decided:
			expectV, expectR = -2, -2 // only the generic rules apply
		case k <= avail:
			expectV, expectR = 1, 0
		default:
			expectV, expectR = 2, 2
		}
	}
	for _, n := range names {
		if d, ok := state[n]; ok {
			os.WriteFile(filepath.Join(dir, n), d, 0o644)
		} else {
			os.Remove(filepath.Join(dir, n))
		}
	}
	intact := func() bool {
		for n, d := range orig {
			b, err := os.ReadFile(filepath.Join(dir, n))
			if err != nil || !bytes.Equal(b, d) {
				return false
			}
		}
		return true
	}
	// verify
	vargs := append(append([]string{}, global...), spV[c.Spell%len(spV)])
	if c.Flag && c.Format == "par1" {
		vargs = append(vargs, "-a")
	}
	vargs = append(vargs, idx)
	if c.Deep {
		vargs[len(vargs)-1] = idxName
		r = parDeep(filepath.Join(root, "p"), dir, vargs...)
	} else {
		r = par(cwd, vargs...)
	}
	if panicked(r) {
		return "par verify panicked: " + tail(r.out), ""
	}
	if r.code == 0 && !intact() {
		return fmt.Sprintf("verify exited 0 although a protected file is damaged (state %s)", c.State), ""
	}
	if expectV >= 0 && r.code != expectV {
		return fmt.Sprintf("verify exited %d in state %q, want %d: %s", r.code, c.State, expectV, tail(r.out)), ""
	}
	if expectV == -1 && (r.code == 0 || r.code == 3) {
		return fmt.Sprintf("verify exited %d in state %q, want a failure status other than 3", r.code, c.State), ""
	}
	// repair
	rargs := append(append([]string{}, global...), spR[c.Spell%len(spR)])
	if c.Flag {
		rargs = append(rargs, "-doublecheck")
	}
	rargs = append(rargs, idx)
	if c.Deep {
		rargs[len(rargs)-1] = idxName
		r = parDeep(filepath.Join(root, "p"), dir, rargs...)
	} else {
		r = par(cwd, rargs...)
	}
	if panicked(r) {
		return "par repair panicked: " + tail(r.out), ""
	}
	if r.code == 0 && !intact() {
		return fmt.Sprintf("repair exited 0 but a protected file is still damaged (state %s)", c.State), ""
	}
	if expectR >= 0 && r.code != expectR {
		k := ""
		if c.Format == "par1" && expectR == 2 {
			k = "D14-par1-repair-exit-7-before-mapping"
		}
		return fmt.Sprintf("repair exited %d in state %q, want %d: %s", r.code, c.State, expectR, tail(r.out)), k
	}
	if expectR == -1 && (r.code == 0 || r.code == 3) {
		return fmt.Sprintf("repair exited %d in state %q, want a failure status other than 3", r.code, c.State), ""
	}
	if expectR == 0 {
		// after a successful repair verify is clean
		if c.Deep {
			r = parDeep(filepath.Join(root, "p"), dir, append(append([]string{}, global...), "v", idxName)...)
		} else {
			r = par(cwd, append(append([]string{}, global...), "v", idx)...)
		}
		if r.code != 0 {
			return fmt.Sprintf("verify after a successful repair exited %d", r.code), ""
		}
	}
	return "", ""
}

var states2 = []string{"intact", "stale-volumes", "cut-in-zero-tail", "dup-slice", "symlinked-volumes", "dup-volume", "grown-16k", "repairable", "repairable-flip", "relocation", "length-only", "create-obstructed", "swap", "unrepairable", "noparity-damaged", "all-lost", "noparity-intact", "damaged-index", "missing-index", "unknown-ext"}
var states1 = []string{"intact", "par1-comment", "symlinked-volumes", "grown-16k", "repairable", "repairable-flip", "create-obstructed", "unrepairable", "noparity-damaged", "all-lost", "noparity-intact", "damaged-index", "missing-index", "unknown-ext"}

var usages = [][]string{{}, {"v", "-h", "set.par2"}, {"verify", "-help", "set.par"}, {"r", "--help", "set.par2"}, {"c", "-h", "set.par2", "a"}, {"-help", "v", "set.par2"}, {"--help"}, {"v", "-x", "set.par2"},
	{"", "set.par2", "a"}, {"", "set.par", "a"}, {"frobnicate"}, {"frobnicate", "set.par2"}, {"v"}, {"verify"}, {"r"}, {"c"}, {"c", "set.par2"}, {"create", "set.par"}, {"-bogus", "v", "set.par2"},
	{"-g", "abc", "v", "set.par2"}, {"c", "-s", "xyz", "set.par2", "a"}, {"c", "-c", "1.5", "set.par2", "a"}, {"v", "-bogus", "set.par2"}, {"r", "-bogus", "set.par"}, {"-g"}, {"c", "-s"}}

var idxBases = []string{"set", "set", "backup.vol7+3", "rate 5%", "my%20set", "a b", "x.y", "100%d", "q[1]", "backup.part1", "x.par2", "set.par"}

func mk(format, state string, i int) Case {
	c := Case{Format: format, State: state, Spell: i, Base: idxBases[i%len(idxBases)], Dir: scen.DirNames[(i/2)%len(scen.DirNames)], Cwd: []string{"set", "parent", "unrelated"}[i%3], G: []int{0, 1, 3}[i%3], Flag: i%2 == 0}
	if format == "par2" {
		c.Slice = []int{4, 8, 64}[i%3]
		c.Files = []scen.FileSpec{{Name: "a.dat", Size: 2*c.Slice + 1, Kind: "random", Seed: uint64(i + 1)}, {Name: "b b.bin", Size: c.Slice, Kind: "random", Seed: uint64(i + 2)}, {Name: "c.x", Size: 3 * c.Slice, Kind: "random", Seed: uint64(i + 3)}}
		c.N = 3 + i%2
	} else {
		c.Files = []scen.FileSpec{{Name: "a.dat", Size: 20, Kind: "random", Seed: uint64(i + 1)}, {Name: "b b.bin", Size: 5 + i%7, Kind: "random", Seed: uint64(i + 2)}, {Name: "c.x", Size: 33, Kind: "random", Seed: uint64(i + 3)}}
		c.N = 1 + i%2
	}
	if i%4 == 0 && len(c.Files) > 0 && c.Files[0].Size >= 8 {
		// a protected file that itself starts with the PAR2 packet magic (a set protecting other sets)
		c.Files[0].Kind = "par2magic"
	}
	if state == "dup-volume" {
		c.N = 1
	}
	c.Prof = i%5 == 3
	c.Deep = i%6 == 4 && state != "create-obstructed" && state != "unknown-ext"
	if state == "dup-slice" && format == "par2" {
		// every slice of the first file is the same block, except the second one
		c.Files[0] = scen.FileSpec{Name: "a.dat", Size: 8*c.Slice - i%3, Kind: "repeat", Seed: uint64(2 * i)}
		c.N = 1
	}
	if state == "cut-in-zero-tail" && format == "par2" {
		c.Files[0] = scen.FileSpec{Name: "a.dat", Size: 3*c.Slice - i%2, Kind: "zerotail", Seed: uint64(i + 1)}
	}
	if state == "stale-volumes" && format == "par2" {
		c.Slice = 1024
		c.Files[0] = scen.FileSpec{Name: "a.dat", Size: 22000 + i%5, Kind: "share16k", Seed: uint64(i)}
		c.N = 2 + i%2
		c.Flag = false // -doublecheck would hide nothing here, but the state is about the plain repair
	}
	if state == "grown-16k" {
		c.Files[len(c.Files)-1].Size = 16384
		if format == "par2" {
			c.Slice = []int{64, 1024, 4096}[i%3]
			c.Files[0].Size = 2*c.Slice + 1
			c.Files[1].Size = c.Slice
		}
	}
	return c
}

func TestCheck(t *testing.T) {
	cfg := run.Load("C20")
	rec := run.NewRec(cfg)
	defer rec.Finish(t)
	if os.Getenv("VERIF_PAR_BIN") == "" {
		t.Fatal("VERIF_PAR_BIN not set")
	}
	do := func(c Case) bool {
		rec.Eval()
		if c.Usage != nil {
			rec.Class("usage-error")
		} else {
			rec.Class(c.Format + ":" + c.State)
			rec.Class("cwd=" + c.Cwd)
		}
		msg, key := check(c)
		if msg != "" {
			return rec.Fail("cli", c, key, msg) == ""
		}
		if c.Usage != nil || c.State != "intact" {
			rec.NonTrivial(c)
		}
		return true
	}
	if cfg.Replay != "" {
		var c Case
		if _, err := run.LoadReplay(cfg.Replay, &c); err != nil {
			t.Fatal(err)
		}
		do(c)
		return
	}
	for _, f := range cfg.RegressFiles() {
		var c Case
		if _, err := run.LoadReplay(f, &c); err == nil && cfg.Shard == 0 {
			do(c)
		}
	}
	idx := 0
	for i, u := range usages {
		idx++
		if cfg.Mine(idx) {
			do(Case{Usage: append([]string{}, u...), Spell: i})
		}
	}
	reps := cfg.N(4, 10)
	for rep := 0; rep < reps; rep++ {
		for _, st := range states2 {
			idx++
			if cfg.Mine(idx) {
				do(mk("par2", st, rep*7+idx))
			}
		}
		for _, st := range states1 {
			idx++
			if cfg.Mine(idx) {
				do(mk("par1", st, rep*5+idx))
			}
		}
	}
	cfg.SetRapid(cfg.N(40, 400), 1)
	flag.Set("rapid.shrinktime", "5s")
	rapid.Check(t, func(rt *rapid.T) {
		format := rapid.SampledFrom([]string{"par2", "par1"}).Draw(rt, "format")
		c := Case{Format: format, Spell: rapid.IntRange(0, 4).Draw(rt, "spell"), Cwd: rapid.SampledFrom([]string{"set", "parent", "unrelated"}).Draw(rt, "cwd"),
			G: rapid.SampledFrom([]int{0, 1, 2, 5}).Draw(rt, "g"), Flag: rapid.Bool().Draw(rt, "flag"), Base: rapid.SampledFrom(idxBases).Draw(rt, "base"), Dir: rapid.SampledFrom(scen.DirNames).Draw(rt, "dir")}
		if format == "par2" {
			c.State = rapid.SampledFrom(states2).Draw(rt, "state")
			c.Slice = rapid.SampledFrom([]int{4, 8, 16, 64, 256}).Draw(rt, "S")
			nf := rapid.IntRange(2, 4).Draw(rt, "nf")
			for i := 0; i < nf; i++ {
				c.Files = append(c.Files, scen.FileSpec{Name: []string{"a.dat", "b b.bin", "c.x", "d"}[i], Size: rapid.IntRange(1, 4*c.Slice).Draw(rt, "size"), Kind: "random", Seed: rapid.Uint64Range(1, 1<<30).Draw(rt, "seed")})
			}
			// enough blocks to repair the first file / the last file's single slice
			c.N = (c.Files[0].Size+c.Slice-1)/c.Slice + rapid.IntRange(0, 2).Draw(rt, "extra")
			if c.State == "dup-volume" {
				c.N = 1
			}
			if c.State == "grown-16k" {
				c.Files[len(c.Files)-1].Size = 16384
			}
			if c.State == "length-only" {
				c.Files[len(c.Files)-1].Size = c.Slice * rapid.IntRange(1, 3).Draw(rt, "whole")
			}
			if c.N < 2 {
				c.N = 2
			}
		} else {
			c.State = rapid.SampledFrom(states1).Draw(rt, "state")
			nf := rapid.IntRange(2, 4).Draw(rt, "nf")
			for i := 0; i < nf; i++ {
				c.Files = append(c.Files, scen.FileSpec{Name: []string{"a.dat", "b b.bin", "c.x", "d"}[i], Size: rapid.IntRange(1, 200).Draw(rt, "size"), Kind: "random", Seed: rapid.Uint64Range(1, 1<<30).Draw(rt, "seed")})
			}
			c.N = rapid.IntRange(1, nf-1).Draw(rt, "n")
			if c.State == "grown-16k" {
				c.Files[len(c.Files)-1].Size = 16384
			}
		}
		if !do(c) {
			rt.Fatalf("C20 failed")
		}
	})
}
