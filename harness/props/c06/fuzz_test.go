package c06

import (
	"testing"

	"pgregory.net/rapid"
	"verifharness/ref/run"
)

// Coverage-guided stage: the layout generator of TestCheck driven by the fuzzing engine's bytes.
func layoutProp(rt *rapid.T) run.RapidVerdict {
	c := gen(rt)
	msg, key, nt := check(c)
	cl := "layout"
	if c.Decoys {
		cl = "layout+decoys"
	}
	return run.RapidVerdict{Case: c, Kind: "layout", Msg: msg, Key: key, Class: cl, NonTrivial: nt}
}

var fuzzProps = map[string]func(*rapid.T) run.RapidVerdict{"FuzzLayout": layoutProp}

func FuzzLayout(f *testing.F) { run.FuzzRapid(f, "C06", layoutProp) }
