// C06: gopar reads any conformant PAR2 set, however it is laid out.
package c06

import (
	"bytes"
	"fmt"
	"os"
	"path/filepath"
	"sort"
	"strings"
	"testing"

	"github.com/akalin/gopar/par2"
	"github.com/akalin/gopar/rsec16"
	"pgregory.net/rapid"
	"verifharness/ref/fsx"
	"verifharness/ref/gf16"
	"verifharness/ref/model"
	"verifharness/ref/par2ref"
	"verifharness/ref/run"
	"verifharness/ref/scen"
)

// Vol is one recovery file of the layout.
type Vol struct {
	Suffix string `json:"suffix"` // file name is <base>.<suffix>.par2
	Exps   []int  `json:"exps"`
}

// Case is a reference-written set plus damage.
type Case struct {
	Files       []scen.FileSpec `json:"files"`
	Slice       int             `json:"slice"`
	Base        string          `json:"base"`
	Vols        []Vol           `json:"vols"`
	Scramble    uint64          `json:"scramble"` // 0 = canonical order, no duplicates, no foreign packets
	Foreign     bool            `json:"foreign"`
	Unknown     bool            `json:"unknown"`
	Damage      []scen.Damage   `json:"damage"`
	G           int             `json:"g"`
	DoubleCheck bool            `json:"double_check"`
	NoClient    bool            `json:"no_client,omitempty"` // the creator packets carry an empty client string (NUL padding only)
	Decoys      bool            `json:"decoys,omitempty"` // entries beside the index that start with "<base>." but do not end in ".par2"
}

func xs(s *uint64) uint64 {
	x := *s
	x ^= x << 13
	x ^= x >> 7
	x ^= x << 17
	*s = x
	return x
}

// layout writes the set into dir. canonical: fixed order, one block per file named <base>.volNNNN+01.par2.
func layout(dir string, c Case, set *par2ref.Set, canonical bool) {
	var foreign *par2ref.Set
	if c.Foreign && !canonical {
		foreign = par2ref.NewSet(c.Slice, map[string][]byte{"elsewhere.bin": []byte("belongs to some other recovery set; long enough for two slices maybe")})
	}
	s := c.Scramble | 1
	mix := func(own []par2ref.Packet, first par2ref.Packet, isIndex bool) []byte {
		ps := append([]par2ref.Packet{}, own...)
		if !isIndex && !canonical && c.Scramble != 0 {
			// only the index file has to start with a packet of its own set
			ps = append(ps, first)
		}
		if !canonical && c.Scramble != 0 {
			// duplicates
			n := len(ps)
			for i := 0; i < n; i++ {
				for k := int(xs(&s) % 3); k > 0 && xs(&s)%3 == 0; k-- {
					ps = append(ps, ps[i])
				}
			}
			if foreign != nil {
				ps = append(ps, foreign.CreatorPacket())
				ps = append(ps, foreign.CriticalPackets()...)
				ps = append(ps, foreign.RecoveryPacket(0), foreign.RecoveryPacket(7))
			}
			if c.Unknown {
				var ty [16]byte
				copy(ty[:], "PAR 2.0\x00VerifUnk")
				ps = append(ps, par2ref.Packet{SetID: set.SetID(), Type: ty, Body: []byte("unknown packet body!")})
				var ty2 [16]byte
				copy(ty2[:], "XYZ 9.9\x00Whatever")
				ps = append(ps, par2ref.Packet{SetID: set.SetID(), Type: ty2, Body: make([]byte, 8)})
			}
			for i := len(ps) - 1; i > 0; i-- {
				j := int(xs(&s) % uint64(i+1))
				ps[i], ps[j] = ps[j], ps[i]
			}
		}
		if c.Unknown && !canonical && c.Scramble != 0 && c.Scramble%3 == 0 {
			// a conformant packet of unknown type with an empty body (length 64) as the very last packet of the file
			var ty [16]byte
			copy(ty[:], "PAR 2.0\x00VerifEmp")
			ps = append(ps, par2ref.Packet{SetID: set.SetID(), Type: ty, Body: nil})
		}
		if !isIndex && !canonical && c.Scramble != 0 {
			return par2ref.EncodeAll(ps)
		}
		// the index file starts with a packet of its own set
		return par2ref.EncodeAll(append([]par2ref.Packet{first}, ps...))
	}
	crit := set.CriticalPackets()
	idx := mix(crit, set.CreatorPacket(), true)
	os.WriteFile(filepath.Join(dir, c.Base+".par2"), idx, 0o644)
	if canonical {
		seen := map[int]bool{}
		for _, v := range c.Vols {
			for _, e := range v.Exps {
				if seen[e] {
					continue
				}
				seen[e] = true
				ps := append(append([]par2ref.Packet{}, crit...), set.RecoveryPacket(e))
				os.WriteFile(filepath.Join(dir, fmt.Sprintf("%s.vol%04d+01.par2", c.Base, e)), mix(ps, set.CreatorPacket(), false), 0o644)
			}
		}
		return
	}
	for _, v := range c.Vols {
		ps := append([]par2ref.Packet{}, crit...)
		for _, e := range v.Exps {
			ps = append(ps, set.RecoveryPacket(e))
		}
		os.WriteFile(filepath.Join(dir, c.Base+"."+v.Suffix+".par2"), mix(ps, set.CreatorPacket(), false), 0o644)
	}
}

type outcome struct {
	verifyErr, repairErr string
	counts               par2.ShardCounts
	final                map[string][]byte
	notEnough            bool
	pan                  string
}

func runOne(c Case, canonical bool) (outcome, map[string][]byte, map[string][]byte) {
	return runLayout(c, canonical, false)
}

// runLayout: ownWriter=true lets gopar's own Create write the set (only meaningful for contiguous exponents 0..n-1).
func runLayout(c Case, canonical, ownWriter bool) (outcome, map[string][]byte, map[string][]byte) {
	var out outcome
	root := run.Scratch("c06")
	defer os.RemoveAll(root)
	dir := filepath.Join(root, "w")
	orig := map[string][]byte{}
	var names []string
	for _, f := range c.Files {
		orig[f.Name] = f.Content(c.Slice)
		names = append(names, f.Name)
	}
	fsx.WriteTree(dir, orig)
	set := par2ref.NewSet(c.Slice, orig)
	if c.NoClient {
		set.Client = "\x00\x00\x00\x00"
	}
	if ownWriter {
		var paths []string
		for _, n := range names {
			paths = append(paths, filepath.Join(dir, n))
		}
		if err := par2.Create(filepath.Join(dir, c.Base+".par2"), paths, par2.CreateOptions{SliceByteCount: c.Slice, NumParityShards: len(allExps(c)), NumGoroutines: 1}); err != nil {
			out.pan = "gopar Create failed: " + err.Error()
			return out, orig, nil
		}
	} else {
		layout(dir, c, set, canonical)
	}
	if c.Decoys {
		// not recovery files (they do not match <base>.*.par2), but they sort between and before the real ones
		for _, n := range []string{".payload.bin", ".0000-notes.txt", ".a.par2.bak", ".vol00+01.par2.bak", ".w.par2~", ".zzz.par2.tmp"} {
			os.WriteFile(filepath.Join(dir, c.Base+n), []byte("decoy beside the index: "+n), 0o644)
		}
		os.MkdirAll(filepath.Join(dir, c.Base+".extracted"), 0o755)
		os.WriteFile(filepath.Join(dir, c.Base+".extracted", "inner.par2"), []byte("inside a decoy directory"), 0o644)
	}
	state := map[string][]byte{}
	for n, d := range orig {
		state[n] = d
	}
	for _, d := range c.Damage {
		d.Apply(names, state)
	}
	for _, n := range names {
		if d, ok := state[n]; ok {
			os.WriteFile(filepath.Join(dir, n), d, 0o644)
		} else {
			os.Remove(filepath.Join(dir, n))
		}
	}
	idx := filepath.Join(dir, c.Base+".par2")
	var vr par2.VerifyResult
	var err error
	if p, msg := run.Safe(func() { vr, err = par2.Verify(idx, par2.VerifyOptions{NumGoroutines: c.G}) }); p {
		out.pan = "Verify panicked: " + msg
		return out, orig, state
	}
	if err != nil {
		out.verifyErr = err.Error()
	}
	out.counts = vr.ShardCounts
	if p, msg := run.Safe(func() { _, err = par2.Repair(idx, par2.RepairOptions{NumGoroutines: c.G, DoubleCheck: c.DoubleCheck}) }); p {
		out.pan = "Repair panicked: " + msg
		return out, orig, state
	}
	if err != nil {
		out.repairErr = err.Error()
		_, out.notEnough = err.(rsec16.NotEnoughParityShardsError)
	}
	out.final = map[string][]byte{}
	for n := range orig {
		if b, e := os.ReadFile(filepath.Join(dir, n)); e == nil {
			out.final[n] = b
		}
	}
	return out, orig, state
}

func allExps(c Case) []int {
	m := map[int]bool{}
	var out []int
	for _, v := range c.Vols {
		for _, e := range v.Exps {
			if !m[e] {
				m[e] = true
				out = append(out, e)
			}
		}
	}
	sort.Ints(out)
	return out
}

func hasGlobMeta(s string) bool { return strings.ContainsAny(s, "[]*?\\") }

var ownLeg bool

func check(c Case) (msg, key string, nontriv bool) {
	ownLeg = false
	scr, orig, state := runOne(c, false)
	// D8 signature: glob metacharacters in the base name (or a directory) make the volume search fail
	if hasGlobMeta(c.Base) {
		key = "D8-glob-metacharacters-in-index-name"
	}
	if scr.pan != "" {
		return scr.pan, key, false
	}
	can, _, _ := runOne(c, true)
	if can.pan != "" {
		return "canonical layout: " + can.pan, key, false
	}
	exps := allExps(c)
	prot := scen.ProtOrder(orig, c.Slice)
	loc := model.Locate(c.Slice, prot, state)
	if scr.verifyErr != "" {
		return "Verify failed on a conformant set: " + scr.verifyErr, key, false
	}
	// every intact recovery block stored beside the index file is found
	if scr.counts.UsableParityShardCount != len(exps) {
		return fmt.Sprintf("UsableParityShardCount=%d but %d distinct recovery blocks are stored beside the index file (exponents %v, files %v)", scr.counts.UsableParityShardCount, len(exps), exps, volNames(c)), key, false
	}
	if scr.counts.UsableDataShardCount < loc.NMust || scr.counts.UsableDataShardCount > loc.NMay {
		return fmt.Sprintf("usable data slices %d outside model bounds [%d,%d]", scr.counts.UsableDataShardCount, loc.NMust, loc.NMay), key, false
	}
	// differential: scrambled == canonical
	if can.verifyErr == "" && (scr.counts.UsableDataShardCount != can.counts.UsableDataShardCount || scr.counts.UnusableDataShardCount != can.counts.UnusableDataShardCount ||
		scr.counts.UsableParityShardCount != can.counts.UsableParityShardCount || scr.counts.RepairNeeded() != can.counts.RepairNeeded()) {
		return fmt.Sprintf("Verify differs between layouts: scrambled %+v, canonical %+v", scr.counts, can.counts), key, false
	}
	if (scr.repairErr == "") != (can.repairErr == "") {
		return fmt.Sprintf("Repair outcome differs between layouts: scrambled err=%q, canonical err=%q", scr.repairErr, can.repairErr), key, false
	}
	for n := range orig {
		if !bytes.Equal(scr.final[n], can.final[n]) {
			return fmt.Sprintf("final bytes of %q differ between layouts", n), key, false
		}
	}
	// third leg: for contiguous exponents gopar's own output for the same logical set must behave identically
	contiguous := true
	for i, e := range exps {
		if e != i {
			contiguous = false
		}
	}
	if contiguous && len(exps) > 0 {
		ownLeg = true
		own, _, _ := runLayout(c, false, true)
		if own.pan != "" {
			return "own-writer leg: " + own.pan, key, false
		}
		if own.verifyErr == "" && (own.counts.UsableDataShardCount != scr.counts.UsableDataShardCount || own.counts.UsableParityShardCount != scr.counts.UsableParityShardCount || own.counts.RepairNeeded() != scr.counts.RepairNeeded()) {
			return fmt.Sprintf("Verify differs between the reference-written set %+v and gopar's own output %+v", scr.counts, own.counts), key, false
		}
		if (own.repairErr == "") != (scr.repairErr == "") {
			return fmt.Sprintf("Repair outcome differs: reference-written err=%q, gopar-written err=%q", scr.repairErr, own.repairErr), key, false
		}
		for n := range orig {
			if !bytes.Equal(own.final[n], scr.final[n]) {
				return fmt.Sprintf("final bytes of %q differ between the reference-written set and gopar's own output", n), key, false
			}
		}
	}
	// model
	allOK := true
	for n, d := range orig {
		if !bytes.Equal(scr.final[n], d) {
			allOK = false
		}
	}
	if scr.repairErr == "" && !allOK {
		return "Repair returned nil but a protected file is not restored", key, false
	}
	if !loc.Ambiguous {
		miss := model.Missing(loc.May)
		enough, nonsing := model.Solvable(miss, exps)
		switch {
		case !enough:
			if scr.repairErr == "" {
				return "Repair succeeded beyond capacity", key, false
			}
		case !nonsing:
			if scr.repairErr == "" {
				return "Repair returned nil for a reference-singular combination", key, false
			}
		default:
			if scr.repairErr != "" {
				return fmt.Sprintf("Repair failed (%s) although %d slices are unusable and blocks %v are available (non-singular)", scr.repairErr, len(miss), exps), key, false
			}
		}
	}
	damaged := false
	for n, d := range orig {
		if s, ok := state[n]; !ok || !bytes.Equal(s, d) {
			damaged = true
		}
	}
	special := hasGlobMeta(c.Base) || strings.Contains(c.Base, " ")
	noncontig := false
	for i, e := range exps {
		if e != i {
			noncontig = true
		}
	}
	for _, v := range c.Vols {
		if hasGlobMeta(v.Suffix) || strings.Contains(v.Suffix, " ") {
			special = true
		}
	}
	return "", "", damaged && c.Scramble != 0 && (special || noncontig || c.Foreign)
}

func volNames(c Case) []string {
	var out []string
	for _, v := range c.Vols {
		out = append(out, c.Base+"."+v.Suffix+".par2")
	}
	return out
}

var bases = []string{"set", "my set", ".hid", "", ".", "..", "a.b", "arch[1]", "x]y", "what?", "st*r", `back\slash`, "{brace}", "ünï", "vol00+01", "dash-_~#"}
var suffixes = []string{"vol00+01", "vol000+001", "anything", "with space", "[br]", "st*r", "q?", "UPPER", "v.o.l", "ünï", "1", "vol7+3", `b\s`, "new\nline", "tab\there"}

func gen(t *rapid.T) Case {
	S := rapid.SampledFrom([]int{4, 8, 16, 64, 256}).Draw(t, "S")
	c := Case{Slice: S}
	c.Files = scen.GenFiles(t, S, 4, 6000, 40)
	c.Base = rapid.SampledFrom(bases).Draw(t, "base")
	volTwin := rapid.IntRange(0, 5).Draw(t, "voltwin") == 0
	nv := rapid.IntRange(1, 5).Draw(t, "nvols")
	sfx := rapid.Permutation(suffixes).Draw(t, "sfx")
	total := scen.TotalSlices(c.Files, S)
	maxExp := 4999
	if total*S > 4000 {
		maxExp = 300
	}
	for i := 0; i < nv; i++ {
		var exps []int
		ne := rapid.IntRange(1, 3).Draw(t, "nexp")
		for k := 0; k < ne; k++ {
			switch rapid.IntRange(0, 3).Draw(t, "eclass") {
			case 0:
				exps = append(exps, rapid.IntRange(0, maxExp).Draw(t, "exp"))
			case 1:
				exps = append(exps, rapid.SampledFrom([]int{0, 3, 4369, 21, 257}).Draw(t, "especial")%(maxExp+1))
			default:
				exps = append(exps, rapid.IntRange(0, 12).Draw(t, "explow"))
			}
		}
		c.Vols = append(c.Vols, Vol{Suffix: sfx[i], Exps: exps})
	}
	if rapid.IntRange(0, 3).Draw(t, "contiguous") == 0 {
		// blocks 0..n-1 spread over the volume files in a generated order: comparable with gopar's own Create output
		n := rapid.IntRange(1, 9).Draw(t, "ncontig")
		order := make([]int, n)
		for i := range order {
			order[i] = i
		}
		order = rapid.Permutation(order).Draw(t, "order")
		for i := range c.Vols {
			c.Vols[i].Exps = nil
		}
		for i, e := range order {
			c.Vols[i%len(c.Vols)].Exps = append(c.Vols[i%len(c.Vols)].Exps, e)
		}
		var keep []Vol
		for _, v := range c.Vols {
			if len(v.Exps) > 0 {
				keep = append(keep, v)
			}
		}
		c.Vols = keep
	}
	isASCII := func(x string) bool {
		for _, r := range x {
			if r > 126 || r < 32 {
				return false
			}
		}
		return true
	}
	if volTwin && len(c.Vols) > 0 && !strings.ContainsAny(c.Base+c.Vols[0].Suffix, "\\") && isASCII(c.Base+c.Vols[0].Suffix) {
		// a protected data file in a sub-directory that carries the same base name as a recovery file beside the index
		c.Files[len(c.Files)-1].Name = "old copies/" + c.Base + "." + c.Vols[0].Suffix + ".par2"
	}
	c.Scramble = rapid.Uint64Range(0, 1<<30).Draw(t, "scramble")
	c.Foreign = rapid.Bool().Draw(t, "foreign")
	c.Unknown = rapid.Bool().Draw(t, "unknown")
	nd := rapid.IntRange(0, 3).Draw(t, "ndamage")
	for i := 0; i < nd; i++ {
		c.Damage = append(c.Damage, scen.GenDamage(t, len(c.Files), scen.MaxLen(c.Files), S, nil))
	}
	c.G = rapid.IntRange(1, 4).Draw(t, "g")
	c.DoubleCheck = rapid.Bool().Draw(t, "dc")
	c.Decoys = rapid.IntRange(0, 2).Draw(t, "decoys") == 0
	c.NoClient = rapid.IntRange(0, 5).Draw(t, "noclient") == 0
	return c
}

func TestCheck(t *testing.T) {
	cfg := run.Load("C06")
	rec := run.NewRec(cfg)
	defer rec.Finish(t)
	do := func(c Case) bool {
		rec.Eval()
		if hasGlobMeta(c.Base) {
			rec.Class("glob-meta-in-base")
		}
		if c.Foreign {
			rec.Class("foreign-packets")
		}
		if c.Unknown {
			rec.Class("unknown-type-packets")
		}
		msg, key, nt := check(c)
		if ownLeg {
			rec.Class("compared-with-gopar-own-output")
		}
		if msg != "" {
			return rec.Fail("layout", c, key, msg) == ""
		}
		if nt {
			rec.NonTrivial(c)
		}
		return true
	}
	if cfg.Replay != "" {
		if rec.ReplayFuzzRapid(t, cfg.Replay, fuzzProps) {
			return
		}
		var c Case
		if _, err := run.LoadReplay(cfg.Replay, &c); err != nil {
			t.Fatal(err)
		}
		do(c)
		return
	}
	for _, f := range cfg.RegressFiles() {
		var c Case
		if _, err := run.LoadReplay(f, &c); err == nil && cfg.Shard == 0 {
			do(c)
		}
	}
	// specification-level singular pair {0, 4369} (columns 0 and 8) written by the reference writer
	if cfg.Shard == 0 {
		files := []scen.FileSpec{{Name: "d/one.bin", Size: 4 * 12, Kind: "random", Seed: 5}}
		do(Case{Files: files, Slice: 4, Base: "sing", Vols: []Vol{{Suffix: "a", Exps: []int{0}}, {Suffix: "b", Exps: []int{4369}}}, Scramble: 77,
			Damage: []scen.Damage{{Op: "flip", File: 0, Off: 0}, {Op: "flip", File: 0, Off: 4 * 8}}, G: 2})
	}
	// non-contiguous exponents {0, e, e+1} with two missing slices whose constants agree at exponent e:
	// the reconstruction needs a row exchange although the system is non-singular
	{
		idx := 0
		for _, e := range []int{4369, 3855, 1285, 771} {
			ci := gf16.PAR2Constants(60)
			found := 0
			for a := 0; a < len(ci) && found < 3; a++ {
				for b := a + 1; b < len(ci) && found < 3; b++ {
					if gf16.FPow(ci[a], uint64(e)) != gf16.FPow(ci[b], uint64(e)) {
						continue
					}
					found++
					idx++
					if !cfg.Mine(idx) {
						continue
					}
					third := (b + 2) % (b + 4)
					if third == a || third == b {
						third = b + 3
					}
					files := []scen.FileSpec{{Name: "one.bin", Size: 8 * (b + 5), Kind: "random", Seed: uint64(70 + idx)}}
					rec.Class("constructed-zero-leading-minor")
					do(Case{Files: files, Slice: 8, Base: "zl", Vols: []Vol{{Suffix: "x", Exps: []int{0, e}}, {Suffix: "y", Exps: []int{e + 1}}}, Scramble: uint64(idx),
						Damage: []scen.Damage{{Op: "flip", File: 0, Off: 8 * a}, {Op: "flip", File: 0, Off: 8*b + 1}, {Op: "flip", File: 0, Off: 8*third + 2}}, G: 2})
				}
			}
		}
	}
	// exponents {0, 1, e} where the two damaged slices' constants agree at exponent e, the block e stored in a file whose name
	// sorts between the files of blocks 0 and 1: the two lowest exponents (0 and 1) must be the ones used
	{
		idx := 0
		ci := gf16.PAR2Constants(40)
		for _, e := range []int{3855, 4369, 1285, 771, 255, 257} {
			found := 0
			for a := 0; a < len(ci) && found < 2; a++ {
				for b := a + 1; b < len(ci) && found < 2; b++ {
					if gf16.FPow(ci[a], uint64(e)) != gf16.FPow(ci[b], uint64(e)) {
						continue
					}
					found++
					idx++
					if !cfg.Mine(3000 + idx) {
						continue
					}
					rec.Class("lowest-exponents-not-first-in-name-order")
					files := []scen.FileSpec{{Name: "one.bin", Size: 4 * (b + 3), Kind: "random", Seed: uint64(170 + idx)}}
					do(Case{Files: files, Slice: 4, Base: "ord", Vols: []Vol{{Suffix: "a", Exps: []int{0}}, {Suffix: "b", Exps: []int{e}}, {Suffix: "c", Exps: []int{1}}}, Scramble: uint64(idx),
						Damage: []scen.Damage{{Op: "flip", File: 0, Off: 4 * a}, {Op: "flip", File: 0, Off: 4*b + 1}}, G: 1 + idx%2})
					do(Case{Files: files, Slice: 4, Base: "ord", Vols: []Vol{{Suffix: "m", Exps: []int{e, 0}}, {Suffix: "z", Exps: []int{1}}}, Scramble: 0,
						Damage: []scen.Damage{{Op: "flip", File: 0, Off: 4 * a}, {Op: "flip", File: 0, Off: 4*b + 1}}, G: 1})
				}
			}
		}
	}
	// many recovery files: the directory holds exactly 256 (and 255, 257, 512) entries at the time of the volume search
	for vi, nv := range []int{253, 254, 255, 510} {
		if !cfg.Mine(1000 + vi) || (nv > 300 && !cfg.Thorough()) {
			continue
		}
		var vols []Vol
		for e := 0; e < nv; e++ {
			vols = append(vols, Vol{Suffix: fmt.Sprintf("v%03d", e), Exps: []int{e}})
		}
		rec.Class("many-volume-files")
		do(Case{Files: []scen.FileSpec{{Name: "only.bin", Size: 9, Kind: "random", Seed: 5}}, Slice: 4, Base: "many", Vols: vols, Scramble: 0, G: 1})
		do(Case{Files: []scen.FileSpec{{Name: "only.bin", Size: 9, Kind: "random", Seed: 5}}, Slice: 4, Base: "many", Vols: vols, Scramble: 0, G: 1, Damage: []scen.Damage{{Op: "delete", File: 0}}})
	}
	// file names in deep sub-directories whose relative path exceeds 255 bytes while every component is short
	for li, depth := range []int{20, 24, 30, 60} {
		if !cfg.Mine(2000 + li) {
			continue
		}
		long := strings.Repeat("dir0123456/", depth) + "leaf.bin"
		rec.Class("path-longer-than-255")
		do(Case{Files: []scen.FileSpec{{Name: long, Size: 21, Kind: "random", Seed: 6}, {Name: "top.bin", Size: 9, Kind: "random", Seed: 7}}, Slice: 4, Base: "deep",
			Vols: []Vol{{Suffix: "vol00+08", Exps: []int{0, 1, 2, 3, 4, 5, 6, 7}}}, Scramble: uint64(li), G: 1, Damage: []scen.Damage{{Op: "flip", File: 0, Off: 5}}})
	}
	cfg.SetRapid(cfg.N(350, 5000), 1)
	rapid.Check(t, func(rt *rapid.T) {
		if !do(gen(rt)) {
			rt.Fatalf("C06 failed")
		}
	})
}
