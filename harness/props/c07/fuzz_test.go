package c07

import (
	"fmt"
	"testing"

	"pgregory.net/rapid"
	"verifharness/ref/run"
)

// Coverage-guided stage: small codes, every choice (coder, counts, shard length, which shards are missing, which parity
// shards are supplied at all) drawn from the fuzzing engine's bytes.
func coderProp(rt *rapid.T) run.RapidVerdict {
	d := rapid.IntRange(1, 24).Draw(rt, "d")
	p := rapid.IntRange(1, 16).Draw(rt, "p")
	l := 2 * rapid.IntRange(0, 20).Draw(rt, "len")
	nd := rapid.IntRange(0, min(d, p+1)).Draw(rt, "nd")
	np := rapid.IntRange(0, p).Draw(rt, "np")
	c := Case{Coder: rapid.SampledFrom([]string{"cauchy", "vand"}).Draw(rt, "coder"), D: d, P: p, Len: l, G: rapid.IntRange(1, 5).Draw(rt, "g"),
		MissD: rapid.SliceOfNDistinct(rapid.IntRange(0, d-1), nd, nd, rapid.ID[int]).Draw(rt, "missd"),
		MissP: rapid.SliceOfNDistinct(rapid.IntRange(0, p-1), np, np, rapid.ID[int]).Draw(rt, "missp"), Seed: rapid.Uint64Range(1, 1<<30).Draw(rt, "seed")}
	msg, out := check(c)
	if msg != "" {
		msg = fmt.Sprintf("%+v: %s", c, msg)
	}
	return run.RapidVerdict{Case: c, Kind: "coder", Msg: msg, Class: "expect=" + out.expect, NonTrivial: len(c.MissD) > 0}
}

var fuzzProps = map[string]func(*rapid.T) run.RapidVerdict{"FuzzCoder": coderProp}

func FuzzCoder(f *testing.F) { run.FuzzRapid(f, "C07", coderProp) }
