// C07: Reed-Solomon coder recovers any erasure pattern within the code's capability.
package c07

import (
	"bytes"
	"fmt"
	"testing"

	"github.com/akalin/gopar/rsec16"
	"pgregory.net/rapid"
	"verifharness/ref/gf16"
	"verifharness/ref/run"
)

// Case is one coder scenario.
type Case struct {
	Coder   string `json:"coder"` // cauchy | vand
	D       int    `json:"d"`
	P       int    `json:"p"`
	Len     int    `json:"len"` // bytes per shard, even
	G       int    `json:"g"`   // goroutines
	MissD   []int  `json:"miss_d"`
	MissP   []int  `json:"miss_p"`
	Seed    uint64 `json:"seed"`
	KeepPar []int  `json:"keep_p,omitempty"` // if set: all parity shards except these are missing (for large P)
}

func xs(s *uint64) uint64 {
	x := *s
	x ^= x << 13
	x ^= x >> 7
	x ^= x << 17
	*s = x
	return x
}

var par2c = gf16.PAR2Constants(32768)

func coef(coder string, d, i, j int) uint16 {
	if coder == "cauchy" {
		return gf16.FInv(uint16(d+i) ^ uint16(j))
	}
	return gf16.FPow(par2c[j], uint64(i))
}

func refParityRow(c Case, data [][]byte, i int) []byte {
	out := make([]byte, c.Len)
	for j := 0; j < c.D; j++ {
		f := coef(c.Coder, c.D, i, j)
		if f == 0 {
			continue
		}
		for k := 0; k+1 < c.Len; k += 2 {
			w := uint16(data[j][k]) | uint16(data[j][k+1])<<8
			v := gf16.FMul(f, w)
			out[k] ^= byte(v)
			out[k+1] ^= byte(v >> 8)
		}
	}
	return out
}

type outcome struct {
	expect   string // ok | notenough | singular | nothing
	singular bool
}

func inSet(s []int, v int) bool {
	for _, x := range s {
		if x == v {
			return true
		}
	}
	return false
}

func check(c Case) (string, outcome) {
	var oc outcome
	var coder rsec16.Coder
	var err error
	if p, msg := run.Safe(func() {
		if c.Coder == "cauchy" {
			coder, err = rsec16.NewCoderCauchy(c.D, c.P, c.G)
		} else {
			coder, err = rsec16.NewCoderPAR2Vandermonde(c.D, c.P, c.G)
		}
	}); p {
		return "NewCoder panicked: " + msg, oc
	}
	limitErr := (c.Coder == "cauchy" && c.D+c.P > 65535) || (c.Coder == "vand" && (c.D > 32768 || c.P > 65535))
	if limitErr {
		oc.expect = "limit"
		if err == nil {
			return "NewCoder accepted shard counts beyond the documented limit", oc
		}
		return "", oc
	}
	if err != nil {
		return fmt.Sprintf("NewCoder(%d,%d) failed within the documented limits: %v", c.D, c.P, err), oc
	}
	s := c.Seed | 1
	data := make([][]byte, c.D)
	for j := range data {
		data[j] = make([]byte, c.Len)
		for k := range data[j] {
			data[j][k] = byte(xs(&s) >> 13)
		}
	}
	orig := make([][]byte, c.D)
	for j := range data {
		orig[j] = append([]byte{}, data[j]...)
	}
	var parity [][]byte
	if p, msg := run.Safe(func() { parity = coder.GenerateParity(data) }); p {
		return "GenerateParity panicked: " + msg, oc
	}
	for j := range data {
		if !bytes.Equal(data[j], orig[j]) {
			return fmt.Sprintf("GenerateParity modified data shard %d", j), oc
		}
	}
	if len(parity) != c.P {
		return fmt.Sprintf("GenerateParity returned %d shards, want %d", len(parity), c.P), oc
	}
	// parity rows compared with the reference (all rows when small, else kept + a sample)
	rows := []int{}
	if c.P*c.D*c.Len <= 4_000_000 {
		for i := 0; i < c.P; i++ {
			rows = append(rows, i)
		}
	} else {
		rows = append(rows, 0, c.P-1, c.P/2)
		rows = append(rows, c.KeepPar...)
	}
	for _, i := range rows {
		if !bytes.Equal(parity[i], refParityRow(c, orig, i)) {
			return fmt.Sprintf("parity shard %d differs from the reference formula", i), oc
		}
	}

	// erase
	missP := c.MissP
	if c.KeepPar != nil {
		missP = nil
		for i := 0; i < c.P; i++ {
			if !inSet(c.KeepPar, i) {
				missP = append(missP, i)
			}
		}
	}
	// the shard lists handed to the coder are windows of longer live slices (stripes kept in one batch): the elements
	// behind the window belong to the caller and must stay untouched
	guard := []byte("belongs to the caller")
	batch := make([][]byte, c.D+c.P+4)
	for i := c.D; i < len(batch); i++ {
		batch[i] = guard
	}
	work := batch[:c.D]
	var supplied []*byte
	for j := range data {
		if inSet(c.MissD, j) {
			continue
		}
		work[j] = data[j]
		if c.Len > 0 {
			supplied = append(supplied, &data[j][0])
		}
	}
	pbatch := make([][]byte, c.P+3)
	for i := c.P; i < len(pbatch); i++ {
		pbatch[i] = guard
	}
	par := pbatch[:c.P]
	parCopy := make([][]byte, c.P)
	var avail []int
	for i := range parity {
		if inSet(missP, i) {
			continue
		}
		par[i] = parity[i]
		parCopy[i] = append([]byte{}, parity[i]...)
		avail = append(avail, i)
	}
	k := 0
	var missCols []int
	for j := 0; j < c.D; j++ {
		if inSet(c.MissD, j) {
			k++
			missCols = append(missCols, j)
		}
	}
	switch {
	case k == 0:
		oc.expect = "nothing"
	case k > len(avail):
		oc.expect = "notenough"
	default:
		used := avail[:k]
		m := make([]uint16, k*k)
		for a, i := range used {
			for b, j := range missCols {
				m[a*k+b] = coef(c.Coder, c.D, i, j)
			}
		}
		rank, _ := gf16.FRank(k, k, m)
		if rank == k {
			oc.expect = "ok"
		} else {
			oc.expect = "singular"
			oc.singular = true
			if c.Coder == "cauchy" {
				return "harness error: Cauchy submatrix singular by reference", oc
			}
		}
	}
	if p, msg := run.Safe(func() { err = coder.ReconstructData(work, par) }); p {
		return "ReconstructData panicked: " + msg, oc
	}
	for i := c.D; i < len(batch); i++ {
		if len(batch[i]) != len(guard) || &batch[i][0] != &guard[0] {
			return fmt.Sprintf("ReconstructData wrote behind the end of the data shard list it was given (element %d of the caller's longer slice changed)", i), oc
		}
	}
	for i := c.P; i < len(pbatch); i++ {
		if len(pbatch[i]) != len(guard) || &pbatch[i][0] != &guard[0] {
			return fmt.Sprintf("ReconstructData wrote behind the end of the parity shard list it was given (element %d of the caller's longer slice changed)", i), oc
		}
	}
	// supplied shards never altered (bytes and backing arrays)
	si := 0
	for j := range data {
		if inSet(c.MissD, j) {
			continue
		}
		if !bytes.Equal(data[j], orig[j]) {
			return fmt.Sprintf("ReconstructData altered supplied data shard %d", j), oc
		}
		if work[j] == nil || len(work[j]) != c.Len {
			return fmt.Sprintf("ReconstructData replaced supplied data shard %d", j), oc
		}
		if c.Len > 0 {
			if &work[j][0] != supplied[si] {
				return fmt.Sprintf("ReconstructData replaced the backing array of supplied data shard %d", j), oc
			}
			si++
		}
	}
	for _, i := range avail {
		if !bytes.Equal(par[i], parCopy[i]) {
			return fmt.Sprintf("ReconstructData altered parity shard %d", i), oc
		}
	}
	if err == nil {
		// a nil error always means restored == original
		for j := range work {
			if oc.expect == "nothing" && inSet(c.MissD, j) {
				continue
			}
			if work[j] == nil || !bytes.Equal(work[j], orig[j]) {
				return fmt.Sprintf("ReconstructData returned nil but data shard %d is not the original (expected outcome %s)", j, oc.expect), oc
			}
		}
	}
	if err != nil {
		// a second attempt on the very same slices (as a caller retrying would do)
		var err2 error
		if p, msg := run.Safe(func() { err2 = coder.ReconstructData(work, par) }); p {
			return "second ReconstructData call after an error panicked: " + msg, oc
		}
		if err2 == nil {
			for j := range work {
				if work[j] == nil || !bytes.Equal(work[j], orig[j]) {
					return fmt.Sprintf("ReconstructData failed (%v), and a second call on the same slices returned nil although data shard %d is not the original", err, j), oc
				}
			}
		}
	}
	switch oc.expect {
	case "ok", "nothing":
		if err != nil {
			return fmt.Sprintf("ReconstructData failed (%v) although %d missing <= %d available parity shards and the system on the lowest available rows is non-singular", err, k, len(avail)), oc
		}
	case "notenough":
		if _, ok := err.(rsec16.NotEnoughParityShardsError); !ok {
			return fmt.Sprintf("want NotEnoughParityShardsError for %d missing / %d available, got %v", k, len(avail), err), oc
		}
	case "singular":
		if err == nil {
			return "ReconstructData returned nil for a combination that is singular by the reference", oc
		}
	}
	return "", oc
}

func subsets(n int) [][]int {
	var out [][]int
	for m := 0; m < 1<<uint(n); m++ {
		var s []int
		for i := 0; i < n; i++ {
			if m&(1<<uint(i)) != 0 {
				s = append(s, i)
			}
		}
		out = append(out, s)
	}
	return out
}

func TestCheck(t *testing.T) {
	cfg := run.Load("C07")
	rec := run.NewRec(cfg)
	defer rec.Finish(t)

	do := func(c Case) bool {
		rec.Eval()
		msg, oc := check(c)
		rec.Class(c.Coder + "/" + oc.expect)
		if c.G > 1 {
			rec.Class("goroutines>1")
		}
		if msg != "" {
			return rec.Fail(c.Coder, c, "", fmt.Sprintf("%+v: %s", c, msg)) == ""
		}
		nmp := len(c.MissP)
		if c.KeepPar != nil {
			nmp = c.P - len(c.KeepPar)
		}
		if len(c.MissD) >= 1 && nmp >= 1 {
			rec.NonTrivial(c)
		}
		return true
	}
	if cfg.Replay != "" {
		if rec.ReplayFuzzRapid(t, cfg.Replay, fuzzProps) {
			return
		}
		var c Case
		if _, err := run.LoadReplay(cfg.Replay, &c); err != nil {
			t.Fatal(err)
		}
		do(c)
		return
	}
	for _, f := range cfg.RegressFiles() {
		var c Case
		if _, err := run.LoadReplay(f, &c); err == nil && cfg.Shard == 0 {
			do(c)
		}
	}

	// (1) exhaustive over all erasure subsets for small codes
	maxD, maxP := cfg.N(5, 6), cfg.N(3, 4)
	idx := 0
	for _, coder := range []string{"cauchy", "vand"} {
		for d := 1; d <= maxD; d++ {
			for p := 1; p <= maxP; p++ {
				for _, md := range subsets(d) {
					for _, mp := range subsets(p) {
						idx++
						if !cfg.Mine(idx) {
							continue
						}
						do(Case{Coder: coder, D: d, P: p, Len: 2 * ((idx % 34) + 0), G: 1 + idx%9, MissD: md, MissP: mp, Seed: uint64(idx)})
					}
				}
			}
		}
	}
	rec.SetExtra("exhaustive_small_codes", fmt.Sprintf("all subsets of missing data and parity shards for d<=%d, p<=%d, both coders", maxD, maxP))

	// (2) every even length 0..66 and a few larger ones
	for _, coder := range []string{"cauchy", "vand"} {
		for _, l := range append(func() []int {
			var v []int
			for x := 0; x <= 66; x += 2 {
				v = append(v, x)
			}
			return v
		}(), 126, 128, 130, 1000, 4096) {
			for g := 1; g <= 9; g += 2 {
				idx++
				if !cfg.Mine(idx) {
					continue
				}
				do(Case{Coder: coder, D: 5, P: 4, Len: l, G: g, MissD: []int{0, 3}, MissP: []int{1}, Seed: uint64(idx)})
			}
		}
	}

	// (3) specification-singular combinations of the PAR2 matrix: high rows, low rows missing
	for _, hr := range []int{4369, 13107, 21845} {
		for d := 2; d <= cfg.N(9, 14); d++ {
			for a := 0; a < d; a++ {
				for b := a + 1; b < d; b++ {
					idx++
					if !cfg.Mine(idx) {
						continue
					}
					do(Case{Coder: "vand", D: d, P: hr + 1, Len: 4, G: 1 + idx%3, MissD: []int{a, b}, KeepPar: []int{0, hr}, Seed: uint64(idx)})
					// more shards available than needed: only the lowest-numbered ones decide the outcome
					do(Case{Coder: "vand", D: d, P: hr + 1, Len: 4, G: 1 + idx%3, MissD: []int{a, b}, KeepPar: []int{0, 1, hr}, Seed: uint64(idx)})
					do(Case{Coder: "vand", D: d, P: hr + 2, Len: 4, G: 1 + idx%3, MissD: []int{a, b}, KeepPar: []int{0, hr, hr + 1}, Seed: uint64(idx)})
				}
			}
		}
	}

	// (3b) three missing shards on rows {0, hr, hr+1}: zero leading minors inside non-singular systems (pivot swaps in the reconstruction)
	for _, hr := range []int{21845, 4369} {
		for d := 3; d <= cfg.N(7, 10); d++ {
			for a := 0; a < d; a++ {
				for b := a + 1; b < d; b++ {
					for e := b + 1; e < d; e++ {
						idx++
						if !cfg.Mine(idx) {
							continue
						}
						do(Case{Coder: "vand", D: d, P: hr + 2, Len: 4, G: 1 + idx%3, MissD: []int{a, b, e}, KeepPar: []int{0, hr, hr + 1}, Seed: uint64(idx)})
					}
				}
			}
		}
	}
	// (3c) long shards with several goroutines (per-goroutine ranges above and around 16 KiB)
	for _, l := range []int{32768, 40000, 60000, 65536, 100000, 131072} {
		for _, g := range []int{2, 3, 4, 7} {
			for _, coder := range []string{"cauchy", "vand"} {
				idx++
				if !cfg.Mine(idx) {
					continue
				}
				do(Case{Coder: coder, D: 3, P: 2, Len: l, G: g, MissD: []int{1}, MissP: []int{0}, Seed: uint64(idx)})
			}
		}
	}

	// (3d) one coder object reused for a sequence of reconstructions with different erasure patterns (state carried between calls)
	for si, sc := range []struct {
		coder string
		d, p  int
		pats  [][]int
	}{
		{"cauchy", 6, 3, [][]int{{0}, {1}, {0, 1}, {2, 5}, {5}, {4}, {0}}},
		{"vand", 9, 4, [][]int{{8}, {7}, {7, 8}, {0, 8}, {1}, {1}}},
		{"cauchy", 56000, 2, [][]int{{55296}, {55297}, {55296, 7}, {55298, 7}, {1}, {55999}}},
		{"cauchy", 65000, 2, [][]int{{57343}, {57344}, {64999}, {55295}, {55296}}},
		{"vand", 32768, 2, [][]int{{32767}, {32766}, {0}, {1}}},
	} {
		if !cfg.Mine(3000+si) || (sc.d > 1000 && !cfg.Thorough() && si != 2) {
			continue
		}
		rec.Class("coder-reused-across-calls")
		rec.Eval()
		var coder rsec16.Coder
		var err error
		if sc.coder == "cauchy" {
			coder, err = rsec16.NewCoderCauchy(sc.d, sc.p, 2)
		} else {
			coder, err = rsec16.NewCoderPAR2Vandermonde(sc.d, sc.p, 2)
		}
		if err != nil {
			rec.Fail("seq", Case{Coder: sc.coder, D: sc.d, P: sc.p}, "", "NewCoder failed: "+err.Error())
			continue
		}
		s := uint64(si)*7919 + 3
		data := make([][]byte, sc.d)
		for j := range data {
			data[j] = make([]byte, 4)
			for k := range data[j] {
				data[j][k] = byte(xs(&s) >> 13)
			}
		}
		parity := coder.GenerateParity(data)
		for pi, pat := range sc.pats {
			work := make([][]byte, sc.d)
			copy(work, data)
			for _, m := range pat {
				work[m] = nil
			}
			var rerr error
			if p, msg := run.Safe(func() { rerr = coder.ReconstructData(work, parity) }); p {
				rec.Fail("seq", Case{Coder: sc.coder, D: sc.d, P: sc.p, MissD: pat}, "", "ReconstructData panicked: "+msg)
				break
			}
			bad := -1
			if rerr == nil {
				for _, m := range pat {
					if !bytes.Equal(work[m], data[m]) {
						bad = m
					}
				}
			}
			if rerr != nil || bad >= 0 {
				rec.Fail("seq", Case{Coder: sc.coder, D: sc.d, P: sc.p, MissD: pat, Seed: uint64(pi)}, "",
					fmt.Sprintf("call %d on a reused %s coder (d=%d,p=%d), missing %v: err=%v, wrong shard=%d (earlier patterns: %v)", pi, sc.coder, sc.d, sc.p, pat, rerr, bad, sc.pats[:pi]))
				break
			}
			rec.NonTrivial(Case{Coder: sc.coder, D: sc.d, P: sc.p, MissD: pat, Seed: uint64(1000 + pi)})
		}
	}

	// (3e) large codes: parity matrices with 2^20 and more elements
	for li, dp := range [][2]int{{2048, 512}, {1024, 1024}, {4096, 300}} {
		if !cfg.Mine(4000+li) || (li > 0 && !cfg.Thorough()) {
			continue
		}
		for _, coder := range []string{"cauchy", "vand"} {
			if coder == "vand" && li != 0 {
				continue
			}
			rec.Class("matrix>=2^20-elements")
			do(Case{Coder: coder, D: dp[0], P: dp[1], Len: 4, G: 4, MissD: []int{0, dp[0] / 2, dp[0] - 1}, MissP: []int{1}, Seed: uint64(90 + li)})
		}
	}

	// (3g) two big codes of the same dimensions but different kinds built one after the other (2^24 matrix elements each)
	if cfg.Mine(4200) {
		rec.Class("big-codes-of-both-kinds-in-sequence")
		do(Case{Coder: "vand", D: 1024, P: 16384, Len: 2, G: 4, MissD: []int{5}, KeepPar: []int{0, 255, 16383}, Seed: 400})
		do(Case{Coder: "cauchy", D: 1024, P: 16384, Len: 2, G: 4, MissD: []int{3, 900}, KeepPar: []int{0, 255}, Seed: 401})
		do(Case{Coder: "vand", D: 1024, P: 16384, Len: 2, G: 4, MissD: []int{3, 900}, KeepPar: []int{1, 256}, Seed: 402})
	}
	// (3h) two missing data shards with parity rows whose exponents share factors with 65535 (3, 5, 17, 257): the reference
	// decides which combinations are singular
	{
		tops := []int{21845, 13107, 43690, 3855, 4369, 255, 257, 771}
		for ti, top := range tops {
			for d := 3; d <= 9; d += 3 {
				for a := 0; a < d; a++ {
					for b := a + 1; b < d; b++ {
						if !cfg.Mine(4300 + ti*100 + d*10 + a + b) {
							continue
						}
						rec.Class("two-missing-with-special-parity-rows")
						do(Case{Coder: "vand", D: d, P: top + 1, Len: 4, G: 1 + (a+b)%3, MissD: []int{a, b}, KeepPar: []int{1, top}, Seed: uint64(top + a*10 + b)})
					}
				}
			}
		}
	}
	// (3i) four missing data shards with a non-contiguous set of lowest parity rows {0, 1, 21845, 21846}: a row below the pivot
	// already has a zero in the pivot column while a later one has not
	for k, miss := range [][]int{{0, 2, 4, 5}, {1, 2, 3, 4}, {0, 1, 2, 3, 5}} {
		if !cfg.Mine(4900 + k) {
			continue
		}
		rec.Class("non-contiguous-rows-with-vanishing-minor")
		keep := []int{0, 1, 21845, 21846}
		if len(miss) == 5 {
			keep = []int{0, 1, 21845, 21846, 21847}
		}
		do(Case{Coder: "vand", D: 6, P: 21848, Len: 4, G: 1 + k, MissD: miss, KeepPar: keep, Seed: uint64(500 + k)})
	}
	// (3f) goroutine counts far beyond the number of work units, up to the largest int
	for gi, g := range []int{1 << 20, 1<<31 - 1, 1 << 31, 1 << 40, 1 << 59, 1<<63 - 1} {
		if !cfg.Mine(4100 + gi) {
			continue
		}
		rec.Class("huge-goroutine-count")
		do(Case{Coder: []string{"cauchy", "vand"}[gi%2], D: 3, P: 2, Len: 64 + 2*gi, G: g, MissD: []int{1}, MissP: []int{0}, Seed: uint64(300 + gi)})
	}
	// (4) limits
	if cfg.Shard == 0 {
		do(Case{Coder: "vand", D: 32769, P: 1, Len: 2, G: 1})
		do(Case{Coder: "vand", D: 1, P: 65536, Len: 2, G: 1})
		do(Case{Coder: "cauchy", D: 65535, P: 1, Len: 2, G: 1})
		do(Case{Coder: "cauchy", D: 32768, P: 32768, Len: 2, G: 1})
	}
	if cfg.Thorough() {
		switch cfg.Shard {
		case 1:
			do(Case{Coder: "vand", D: 32768, P: 2, Len: 4, G: 3, MissD: []int{0, 32767}, MissP: nil, Seed: 99})
		case 2:
			do(Case{Coder: "cauchy", D: 65533, P: 2, Len: 4, G: 2, MissD: []int{5, 65532}, MissP: nil, Seed: 98})
		case 3:
			do(Case{Coder: "vand", D: 3, P: 65535, Len: 2, G: 2, MissD: []int{1}, KeepPar: []int{65534}, Seed: 97})
		}
	}

	// (5) generated codes
	maxGD := cfg.N(300, 2000)
	cfg.SetRapid(cfg.N(500, 8000), 1)
	rapid.Check(t, func(rt *rapid.T) {
		var d, p int
		switch rapid.IntRange(0, 9).Draw(rt, "size") {
		case 0:
			d = rapid.IntRange(64, maxGD).Draw(rt, "d")
			p = rapid.IntRange(1, 64).Draw(rt, "p")
		default:
			d = rapid.IntRange(1, 40).Draw(rt, "d")
			p = rapid.IntRange(1, 24).Draw(rt, "p")
		}
		l := 2 * rapid.IntRange(0, 40).Draw(rt, "len")
		if d > 64 {
			l = 2 * rapid.IntRange(1, 8).Draw(rt, "lenbig")
		}
		nd := rapid.IntRange(0, min(d, p+1)).Draw(rt, "nd")
		np := rapid.IntRange(0, p).Draw(rt, "np")
		md := rapid.SliceOfNDistinct(rapid.IntRange(0, d-1), nd, nd, rapid.ID[int]).Draw(rt, "missd")
		mp := rapid.SliceOfNDistinct(rapid.IntRange(0, p-1), np, np, rapid.ID[int]).Draw(rt, "missp")
		c := Case{Coder: rapid.SampledFrom([]string{"cauchy", "vand"}).Draw(rt, "coder"), D: d, P: p, Len: l,
			G: rapid.IntRange(1, 9).Draw(rt, "g"), MissD: md, MissP: mp, Seed: rapid.Uint64Range(1, 1<<40).Draw(rt, "seed")}
		if !do(c) {
			rt.Fatalf("coder check failed")
		}
	})
}
