// C19: well-checksummed but inconsistent archives are rejected without crashing.
package c19

import (
	"bufio"
	"bytes"
	"crypto/md5"
	"encoding/binary"
	"encoding/json"
	"fmt"
	"io"
	"os"
	"os/exec"
	"path/filepath"
	"runtime"
	"strings"
	"syscall"
	"testing"
	"time"

	"github.com/akalin/gopar/par1"
	"github.com/akalin/gopar/par2"
	"pgregory.net/rapid"
	"verifharness/ref/fsx"
	"verifharness/ref/par2ref"
	"verifharness/ref/run"
)

type reply struct {
	Msg   string `json:"msg"`
	Alloc uint64 `json:"alloc"`
	Slice uint64 `json:"slice"`
}

// evalCase runs one case in-process (inside the worker).
func evalCase(c Case) reply {
	var files map[string][]byte
	var decls []decl
	var slice uint64
	data := map[string][]byte{}
	if c.Format == "par2" {
		files, slice, decls = BuildPAR2(c.Muts)
		for i, n := range p2names {
			data[n] = p2data(i)
		}
	} else {
		files, decls = BuildPAR1(c.Muts)
		for i, n := range p1names {
			data[n] = p1data(i)
		}
	}
	return evalFiles(c.Format, files, slice, decls, data, c.DataPresent, c.Conformant, len(c.Muts)%2 == 0)
}

// evalFiles writes the archive files and the data-file state into a fresh directory, runs Verify and Repair and applies the oracle.
func evalFiles(format string, files map[string][]byte, slice uint64, decls []decl, data map[string][]byte, dataPresent int, conformant, doubleCheck bool) reply {
	root := ""
	if base := os.Getenv("VERIF_C19_SCRATCH"); base != "" {
		// the parent owns (and removes) the scratch area, so nothing is left behind when this worker dies
		root, _ = os.MkdirTemp(base, "case-")
	}
	if root == "" {
		root = run.Scratch("c19")
	}
	defer os.RemoveAll(root)
	dir := filepath.Join(root, "w")
	idx := filepath.Join(dir, "set.par2")
	if format != "par2" {
		idx = filepath.Join(dir, "set.par")
	}
	c := struct {
		Format      string
		DataPresent int
		Conformant  bool
	}{format, dataPresent, conformant}
	fsx.WriteTree(dir, files)
	os.MkdirAll(filepath.Join(dir, "sub"), 0o755)
	i := 0
	for n, d := range data {
		if c.DataPresent == 1 || c.DataPresent == 3 || (c.DataPresent == 2 && n != "a.dat") {
			fsx.WriteTree(dir, map[string][]byte{n: d})
		}
		i++
	}
	if c.DataPresent == 3 && c.Format == "par2" {
		set := par2ref.NewSet(8, map[string][]byte{p2names[0]: p2data(0), p2names[1]: p2data(1)})
		g := 0
		for _, f := range set.Files {
			d := append([]byte{}, f.Data...)
			for o := 0; o < len(d); o += 8 {
				if g == 0 || g == 2 {
					d[o] ^= 0x5a
				}
				g++
			}
			fsx.WriteTree(dir, map[string][]byte{f.Name: d})
		}
	}
	before, _ := fsx.Take(dir)
	var ms0, ms1 runtime.MemStats
	runtime.ReadMemStats(&ms0)
	var msg string
	var vr2 par2.VerifyResult
	var verr2 error = fmt.Errorf("not run")
	pan, pmsg := run.Safe(func() {
		if c.Format == "par2" {
			vr2, verr2 = par2.Verify(idx, par2.VerifyOptions{NumGoroutines: 1})
			par2.Repair(idx, par2.RepairOptions{NumGoroutines: 1, DoubleCheck: doubleCheck})
		} else {
			par1.Verify(idx, par1.VerifyOptions{VerifyAllData: true})
			par1.Repair(idx, par1.RepairOptions{DoubleCheck: doubleCheck})
		}
	})
	runtime.ReadMemStats(&ms1)
	alloc := ms1.TotalAlloc - ms0.TotalAlloc
	if pan {
		msg = "panic: " + pmsg
	}
	if msg == "" && c.Format == "par2" && verr2 == nil {
		// a returned result is truthful with respect to what the archive itself holds: for the recovery set whose main
		// packet(s) declare slice size S, the distinct exponents of its valid recovery packets with S bytes of data
		// (any file; the largest such count over the recovery sets present is an upper bound for what can be usable)
		type setInfo struct {
			slices map[uint64]bool
			recv   []par2ref.Parsed
		}
		sets := map[[16]byte]*setInfo{}
		for _, b := range files {
			for _, p := range par2ref.ScanTolerant(b) {
				si := sets[p.SetID]
				if si == nil {
					si = &setInfo{slices: map[uint64]bool{}}
					sets[p.SetID] = si
				}
				if p.Type == par2ref.TypeMain && len(p.Body) >= 8 {
					si.slices[binary.LittleEndian.Uint64(p.Body)] = true
				}
				if p.Type == par2ref.TypeRecvSlic {
					si.recv = append(si.recv, p)
				}
			}
		}
		exps := map[uint32]bool{}
		for _, si := range sets {
			e1 := map[uint32]bool{}
			for _, p := range si.recv {
				e, d, _ := par2ref.ParseRecovery(p.Body)
				if si.slices[uint64(len(d))] && e < 65536 {
					e1[e] = true
				}
			}
			if len(e1) > len(exps) {
				exps = e1
			}
		}
		if vr2.ShardCounts.UsableParityShardCount > len(exps) {
			msg = fmt.Sprintf("Verify counts %d usable recovery blocks but only %d blocks of the declared slice size are stored", vr2.ShardCounts.UsableParityShardCount, len(exps))
		}
	}
	if msg == "" && c.Format == "par2" && verr2 == nil && !vr2.ShardCounts.RepairNeeded() {
		// "no repair needed" is truthful only if every non-empty file of the recovery set (the IDs the main packet of the
		// index file's set lists) that carries one of the set's real names is there with the declared length and MD5
		inSet := map[[16]byte]bool{}
		if ps := par2ref.ScanTolerant(files["set.par2"]); len(ps) > 0 {
			for _, p := range ps {
				if p.Type == par2ref.TypeMain && p.SetID == ps[0].SetID {
					if m, err := par2ref.ParseMain(p.Body); err == nil {
						for i, id := range m.IDs {
							if uint32(i) < m.NRecovery {
								inSet[id] = true
							}
						}
					}
					break
				}
			}
		}
		// (an inconsistent archive may carry several descriptions of one file, e.g. differing copies in the index and in a
		// volume: the verdict is truthful if the file matches one of them)
		declared, matched := map[string]bool{}, map[string]bool{}
		for _, d := range decls {
			if _, known := data[d.Name]; !known || d.Length == 0 || !inSet[par2ref.FileID(d.MD516k, d.Length, []byte(d.Name))] {
				continue
			}
			declared[d.Name] = true
			if e, ok := before[d.Name]; ok && uint64(len(e.Data)) == d.Length && md5.Sum(e.Data) == d.MD5 {
				matched[d.Name] = true
			}
		}
		for n := range declared {
			if !matched[n] {
				msg = fmt.Sprintf("Verify reports that no repair is needed, but %q is missing or has the length and MD5 of none of the descriptions the archive carries for it", n)
				break
			}
		}
	}
	if msg == "" && c.Conformant {
		after, _ := fsx.Take(dir)
		for n, d := range data {
			if e, ok := after[n]; !ok || !bytes.Equal(e.Data, d) {
				msg = fmt.Sprintf("the set is conformant and fully repairable, but after Verify+Repair %q is not restored", n)
			}
		}
	}
	if msg == "" {
		after, _ := fsx.Take(dir)
		for _, ch := range fsx.Diff(before, after) {
			if ch.Kind == "deleted" || ch.Kind == "type" || after[ch.Path].IsDir {
				msg = fmt.Sprintf("%s %q", ch.Kind, ch.Path)
				break
			}
			ok := false
			for _, d := range decls {
				// the property is about the archive's own file hashes; how a non-ASCII or otherwise odd declared name is
				// mapped to a path inside the directory is C15's business, so any declared entry with this length/MD5 counts
				got := after[ch.Path].Data
				h16 := md5.Sum(got)
				if len(got) >= 16384 {
					h16 = md5.Sum(got[:16384])
				}
				if d.Length == uint64(len(got)) && d.MD5 == md5.Sum(got) && (!d.Has16k || d.MD516k == h16) {
					ok = true
				}
			}
			if !ok {
				msg = fmt.Sprintf("wrote %q (%d bytes) whose length/MD5/16k-MD5 match no file entry the archive declares", ch.Path, len(after[ch.Path].Data))
				break
			}
		}
	}
	return reply{Msg: msg, Alloc: alloc, Slice: slice}
}

// ---- worker protocol: one JSON case per line on stdin, one JSON reply per line on stdout

func workerMain() {
	lim := syscall.Rlimit{Cur: 6 << 30, Max: 6 << 30}
	syscall.Setrlimit(syscall.RLIMIT_AS, &lim)
	in := bufio.NewReaderSize(os.Stdin, 1<<20)
	out := bufio.NewWriter(os.Stdout)
	for {
		line, err := in.ReadBytes('\n')
		if len(line) > 0 {
			var c Case
			if json.Unmarshal(line, &c) == nil {
				r := evalCase(c)
				b, _ := json.Marshal(r)
				out.Write(b)
				out.WriteByte('\n')
				out.Flush()
			}
		}
		if err != nil {
			return
		}
	}
}

type worker struct {
	scratch string
	cmd    *exec.Cmd
	in     io.WriteCloser
	out    *bufio.Reader
	stderr *bytes.Buffer
}

func startWorker() *worker {
	scr := run.Scratch("c19w")
	cmd := exec.Command(os.Args[0], "-test.run", "^TestWorker$")
	cmd.Env = append(os.Environ(), "VERIF_C19_WORKER=1", "VERIF_C19_SCRATCH="+scr)
	in, _ := cmd.StdinPipe()
	outp, _ := cmd.StdoutPipe()
	w := &worker{scratch: scr, cmd: cmd, in: in, out: bufio.NewReaderSize(outp, 1<<20), stderr: &bytes.Buffer{}}
	cmd.Stderr = w.stderr
	if err := cmd.Start(); err != nil {
		panic(err)
	}
	return w
}

func (w *worker) stop() {
	defer os.RemoveAll(w.scratch)
	w.in.Close()
	done := make(chan struct{})
	go func() { w.cmd.Wait(); close(done) }()
	select {
	case <-done:
	case <-time.After(3 * time.Second):
		w.cmd.Process.Kill()
		<-done
	}
}

// ask sends a case; died=true when the worker crashed or timed out.
func (w *worker) ask(c Case) (r reply, died bool, why string) {
	b, _ := json.Marshal(c)
	if _, err := w.in.Write(append(b, '\n')); err != nil {
		return r, true, "write to worker failed"
	}
	type res struct {
		line []byte
		err  error
	}
	ch := make(chan res, 1)
	go func() {
		for {
			l, err := w.out.ReadBytes('\n')
			// the test binary prints "=== RUN" etc. on stdout; skip non-JSON lines
			if err != nil || (len(l) > 0 && l[0] == '{') {
				ch <- res{l, err}
				return
			}
		}
	}()
	select {
	case x := <-ch:
		if x.err != nil {
			w.cmd.Wait()
			os.RemoveAll(w.scratch)
			return r, true, "worker died: " + tailStr(w.stderr.String())
		}
		json.Unmarshal(x.line, &r)
		return r, false, ""
	case <-time.After(25 * time.Second):
		w.cmd.Process.Kill()
		w.cmd.Wait()
		os.RemoveAll(w.scratch)
		return r, true, "timeout"
	}
}

func tailStr(s string) string {
	// keep the first lines of a Go fatal error / panic report
	l := strings.Split(s, "\n")
	if len(l) > 14 {
		l = l[:14]
	}
	return strings.Join(l, "\n")
}

func TestWorker(t *testing.T) {
	if os.Getenv("VERIF_C19_WORKER") != "1" {
		t.Skip("worker entry point")
	}
	workerMain()
}

// ---- enumeration

func u64grid(v uint64) []uint64 {
	return []uint64{0, 1, 2, 3, v - 1, v + 1, v + 4, v - 4, 2 * v, 255, 256, 65535, 65536, 1<<31 - 1, 1 << 31, 1<<31 + 4, 1<<32 - 1, 1 << 32, 1 << 40, 1 << 47, 1<<63 - 4, 1<<63 - 1, 1 << 63, 1<<64 - 4, 1<<64 - 1}
}

func par2Singles() []Mut {
	var ms []Mut
	for _, v := range append(u64grid(8), 4, 12, 16, 1<<20, 1<<33, 1<<46) {
		ms = append(ms, Mut{"slice_size", v})
	}
	for _, v := range []uint64{0, 1, 3, 4, 1 << 31, 1<<32 - 1} {
		ms = append(ms, Mut{"nrec", v})
	}
	for _, m := range []string{"dup", "unsorted", "extra", "missing"} {
		ms = append(ms, Mut{"ids:" + m, 0})
	}
	ms = append(ms, Mut{"recvinindex", 0}, Mut{"recvonlyinindex", 0})
	for i := 0; i < 2; i++ {
		for _, v := range u64grid([]uint64{20, 9}[i]) {
			ms = append(ms, Mut{fmt.Sprintf("f%d.length", i), v})
		}
		ms = append(ms, Mut{fmt.Sprintf("f%d.md5", i), 1}, Mut{fmt.Sprintf("f%d.md516k", i), 1})
		for _, v := range []uint64{0, 1, 2, 3, 4, 5, 100, 4000} {
			ms = append(ms, Mut{fmt.Sprintf("f%d.pairs", i), v})
		}
		for v := uint64(0); v < 5; v++ {
			ms = append(ms, Mut{fmt.Sprintf("f%d.name", i), v})
		}
		ms = append(ms, Mut{fmt.Sprintf("ifscid:%d", i), 12345})
	}
	for _, j := range []int{0, 3, 5} {
		for _, v := range []uint64{0, 1, 5, 6, 7, 100, 4369, 32767, 65534, 65535, 65536, 1 << 31, 1<<32 - 1} {
			ms = append(ms, Mut{fmt.Sprintf("r%d.exp", j), v})
		}
		for _, v := range []uint64{0, 4, 12, 16, 400} {
			ms = append(ms, Mut{fmt.Sprintf("r%d.len", j), v})
		}
	}
	for file := 0; file < 2; file++ {
		npk := 6
		if file == 1 {
			npk = 12
		}
		for k := 0; k < npk; k++ {
			for _, v := range []uint64{0, 1, 60, 63, 64, 68, 1 << 31, 1 << 32, 1<<63 - 4, 1 << 63, 1<<63 + 64, 1<<64 - 4, 1<<64 - 1, 100000} {
				ms = append(ms, Mut{fmt.Sprintf("pktlen:%d:%d", file, k), v})
			}
		}
		for _, t := range []string{"creator", "main", "desc", "ifsc", "recv"} {
			ms = append(ms, Mut{fmt.Sprintf("drop:%s:%d", t, file), 0}, Mut{fmt.Sprintf("dup:%s:%d", t, file), 0})
		}
	}
	return ms
}

func par1Singles() []Mut {
	var ms []Mut
	for v := 0; v < 4; v++ {
		for _, f := range []struct {
			n string
			v uint64
		}{{"version", 0x10000}, {"volnum", uint64(v)}, {"count", 3}, {"listoff", 0x60}, {"listsize", 200}, {"dataoff", 296}, {"datasize", 10}} {
			for _, x := range append(u64grid(f.v), 99, 100, 253, 254, 257, 1<<62, 1<<33) {
				ms = append(ms, Mut{fmt.Sprintf("h%d.%s", v, f.n), x})
			}
		}
	}
	for k := 0; k < 3; k++ {
		for _, x := range append(u64grid(66), 56, 57, 58, 64) {
			ms = append(ms, Mut{fmt.Sprintf("e%d.entrysize", k), x})
		}
		for _, x := range []uint64{0, 1, 2, 3, 1 << 63, 1<<64 - 1} {
			ms = append(ms, Mut{fmt.Sprintf("e%d.status", k), x})
		}
		for _, x := range u64grid([]uint64{10, 4, 7}[k]) {
			ms = append(ms, Mut{fmt.Sprintf("e%d.size", k), x})
		}
		for x := uint64(0); x < 7; x++ {
			ms = append(ms, Mut{fmt.Sprintf("e%d.name", k), x})
		}
	}
	for _, n := range []uint64{1, 96, 97, 252, 253, 254, 300} {
		ms = append(ms, Mut{"addentries", n})
	}
	for _, n := range []uint64{0, 1, 5, 9, 11, 1000} {
		ms = append(ms, Mut{"vol.datalen", n})
	}
	ms = append(ms, Mut{"novols", 0})
	return ms
}

func declaredSlice(c Case) uint64 {
	for _, m := range c.Muts {
		if m.Field == "slice_size" {
			return m.Val
		}
	}
	return 8
}

// knownKey: signatures of recorded findings.
func knownKey(c Case, msg string) string {
	if c.Format == "par2" && declaredSlice(c) >= 1<<40 && (strings.Contains(msg, "makeslice") || strings.Contains(msg, "out of memory") || strings.Contains(msg, "out of range")) {
		return "D16-huge-declared-slice-size"
	}
	return ""
}

func TestCheck(t *testing.T) {
	if os.Getenv("VERIF_C19_WORKER") == "1" {
		t.Skip()
	}
	cfg := run.Load("C19")
	rec := run.NewRec(cfg)
	defer rec.Finish(t)
	var w *worker
	defer func() {
		if w != nil {
			w.stop()
		}
	}()
	do := func(c Case) bool {
		rec.Eval()
		rec.Class(c.Format)
		if len(c.Muts) > 1 {
			rec.Class("pair")
		}
		if sl := declaredSlice(c); c.Format == "par2" && sl >= 1<<27 && sl < 1<<40 && sl%4 == 0 && (!cfg.Thorough() || (c.DataPresent != 0 && sl > 1<<27)) && !(sl == 1<<31 && c.DataPresent == 0) {
			// scanning a present data file with a declared slice size of gigabytes legitimately costs gigabytes and minutes:
			// only exercised in the thorough tier (plus one probe in quick)
			rec.Class("skipped:huge-declared-slice-size")
			return true
		}
		if w == nil {
			w = startWorker()
		}
		r, died, why := w.ask(c)
		if died {
			w = nil
			slice := declaredSlice(c)
			// memory proportional to the declared slice size is permitted: an OOM kill there is inconclusive
			if c.Format == "par2" && slice >= 1<<27 && slice < 1<<40 && (why == "timeout" || strings.Contains(why, "out of memory") || strings.Contains(why, "cannot allocate")) {
				rec.Inconclusive("resource limit with a huge declared slice size")
				return true
			}
			return rec.Fail("crash", c, knownKey(c, why), "Verify/Repair crashed the process (not even a recoverable panic): "+why) == ""
		}
		if r.Msg != "" {
			return rec.Fail(c.Format, c, knownKey(c, r.Msg), fmt.Sprintf("%+v: %s", c.Muts, r.Msg)) == ""
		}
		bound := uint64(256 << 20)
		if c.Format == "par2" && r.Slice > 1<<20 {
			bound += 64 * r.Slice
		}
		if r.Alloc > bound {
			return rec.Fail("memory", c, "", fmt.Sprintf("%+v: allocated %d MiB for an archive of a few KiB (declared slice size %d)", c.Muts, r.Alloc>>20, r.Slice)) == ""
		}
		rec.NonTrivial(c)
		return true
	}
	if cfg.Replay != "" {
		if rec.ReplayFuzz(cfg.Replay, fuzzOracles) {
			return
		}
		var c Case
		if _, err := run.LoadReplay(cfg.Replay, &c); err != nil {
			t.Fatal(err)
		}
		do(c)
		return
	}
	for _, f := range cfg.RegressFiles() {
		if cfg.Shard == 0 && rec.ReplayFuzz(f, fuzzOracles) {
			continue
		}
		var c Case
		if _, err := run.LoadReplay(f, &c); err == nil && cfg.Shard == 0 {
			do(c)
		}
	}
	idx := 0
	s2, s1 := par2Singles(), par1Singles()
	for _, dp := range []int{0, 1, 2} {
		for _, m := range s2 {
			idx++
			if cfg.Mine(idx) {
				do(Case{Format: "par2", Muts: []Mut{m}, DataPresent: dp})
			}
		}
		for _, m := range s1 {
			idx++
			if cfg.Mine(idx) {
				do(Case{Format: "par1", Muts: []Mut{m}, DataPresent: dp})
			}
		}
	}
	// exhaustive pairs: every structural mutation (packet removal/duplication, ID-list shape, recovery block size) with every single mutation
	var structural []Mut
	for _, m := range s2 {
		if strings.HasPrefix(m.Field, "drop:") || strings.HasPrefix(m.Field, "dup:") || strings.HasPrefix(m.Field, "ids:") || (strings.HasSuffix(m.Field, ".len") && m.Val < 16) || m.Field == "recvinindex" || m.Field == "recvonlyinindex" {
			structural = append(structural, m)
		}
	}
	for _, a := range structural {
		for _, b := range s2 {
			if a == b || (!cfg.Thorough() && strings.HasPrefix(b.Field, "pktlen:")) {
				continue
			}
			for _, dp := range []int{0, 2} {
				idx++
				if cfg.Mine(idx) {
					do(Case{Format: "par2", Muts: []Mut{a, b}, DataPresent: dp})
				}
			}
		}
	}
	var structural1 []Mut
	for _, m := range s1 {
		if m.Field == "addentries" || m.Field == "vol.datalen" || strings.HasSuffix(m.Field, ".status") || m.Field == "novols" {
			structural1 = append(structural1, m)
		}
	}
	for _, a := range structural1 {
		for _, b := range s1 {
			if a == b || (!cfg.Thorough() && len(b.Field) > 1 && b.Field[0] == 'h' && b.Field[1] != '0' && b.Field[1] != '2') {
				continue
			}
			idx++
			if cfg.Mine(idx) {
				do(Case{Format: "par1", Muts: []Mut{a, b}, DataPresent: idx % 3})
			}
		}
	}
	// pairs of header fields of the same PAR1 volume (quick: a reduced value grid, volumes 0 and 2)
	{
		fields := []struct {
			n string
			v uint64
		}{{"count", 3}, {"listoff", 0x60}, {"listsize", 200}, {"dataoff", 296}, {"datasize", 10}, {"volnum", 1}}
		grid := func(v uint64) []uint64 {
			g := []uint64{0, 1, v - 1, v + 1, 1 << 22, 1 << 31, 1 << 32, 1 << 62, 1 << 63, 1<<64 - 1}
			if cfg.Thorough() {
				g = append(g, 2*v, 65536, 1<<61+1, 1<<63+1, 1<<64-56, 1<<40)
			}
			return g
		}
		vols := []int{0, 2}
		if cfg.Thorough() {
			vols = []int{0, 1, 2, 3}
		}
		for _, v := range vols {
			for i, fa := range fields {
				for _, fb := range fields[i+1:] {
					for _, x := range grid(fa.v) {
						for _, y := range grid(fb.v) {
							idx++
							if cfg.Mine(idx) {
								do(Case{Format: "par1", Muts: []Mut{{fmt.Sprintf("h%d.%s", v, fa.n), x}, {fmt.Sprintf("h%d.%s", v, fb.n), y}}, DataPresent: idx % 3})
							}
						}
					}
				}
			}
		}
	}
	// pairs of a PAR1 offset and its size whose 64-bit sum wraps around to a position inside (or just behind) the file
	{
		files1, _ := BuildPAR1(nil)
		for v, name := range []string{"set.par", "set.p01", "set.p02"} {
			L := uint64(len(files1[name]))
			for _, pr := range [][2]string{{"dataoff", "datasize"}, {"listoff", "listsize"}} {
				for _, k := range []uint64{1, 8, 16, 96, 4096} {
					for _, end := range []uint64{L, L - 1, L + 1, 0x60, L - 10} {
						idx++
						if cfg.Mine(idx) {
							do(Case{Format: "par1", Muts: []Mut{{fmt.Sprintf("h%d.%s", v, pr[0]), -k}, {fmt.Sprintf("h%d.%s", v, pr[1]), end + k}}, DataPresent: int(idx) % 3})
						}
					}
				}
			}
		}
	}
	// exponent sets whose lowest rows are a specification-singular pair for the two damaged slices (with spare blocks behind them)
	for k := uint64(0); k < 3; k++ {
		for _, dp := range []int{3, 0, 2} {
			idx++
			if cfg.Mine(idx) {
				do(Case{Format: "par2", Muts: []Mut{{"exps", k}}, DataPresent: dp})
				do(Case{Format: "par2", Muts: []Mut{{"exps", k}, {"dup:recv:1", 0}}, DataPresent: dp})
			}
		}
	}
	// a PAR2 set whose files are all declared empty (no checksum pairs) but that still carries recovery packets
	for _, dp := range []int{0, 1} {
		idx++
		if cfg.Mine(idx) {
			do(Case{Format: "par2", Muts: []Mut{{"f0.length", 0}, {"f0.pairs", 0}, {"f1.length", 0}, {"f1.pairs", 0}}, DataPresent: dp})
			do(Case{Format: "par2", Muts: []Mut{{"f0.length", 0}, {"f0.pairs", 0}}, DataPresent: dp})
		}
	}
	// PAR1: volumes with high numbers (only .p58..p60 exist) combined with many entries that are not saved in the set
	for _, first := range []uint64{58, 97, 40} {
		for _, extra := range []uint64{0, 96, 160, 200, 252} {
			for _, dp := range []int{0, 2} {
				idx++
				if cfg.Mine(idx) {
					do(Case{Format: "par1", Muts: []Mut{{"vol.first", first}, {"addentries", extra}}, DataPresent: dp, Conformant: dp == 2})
				}
			}
		}
	}
	// consistent sets with one slice per file and a large declared slice size
	for _, v := range []uint64{24, 32, 64, 4096, 1 << 20, 1 << 27, 1 << 31, 1 << 40, 1 << 47, 1<<62 + 4, 1<<63 - 4} {
		for _, dp := range []int{0, 1, 2} {
			idx++
			if cfg.Mine(idx) {
				do(Case{Format: "par2", Muts: []Mut{{"slice_size", v}, {"f0.pairs", 1}, {"f1.pairs", 1}}, DataPresent: dp})
			}
		}
	}
	rec.SetExtra("single_mutations", fmt.Sprintf("%d PAR2 + %d PAR1 field x value mutations, each with 3 data-file states (exhaustive)", len(s2), len(s1)))
	// unmutated sets must verify and repair (sanity of the writers)
	if cfg.Shard == 0 {
		do(Case{Format: "par2", DataPresent: 0})
		do(Case{Format: "par1", DataPresent: 2})
	}
	cfg.SetRapid(cfg.N(1000, 8000), 1)
	rapid.Check(t, func(rt *rapid.T) {
		var c Case
		if rapid.Bool().Draw(rt, "p2") {
			c = Case{Format: "par2", Muts: []Mut{rapid.SampledFrom(s2).Draw(rt, "m1"), rapid.SampledFrom(s2).Draw(rt, "m2")}}
		} else {
			c = Case{Format: "par1", Muts: []Mut{rapid.SampledFrom(s1).Draw(rt, "m1"), rapid.SampledFrom(s1).Draw(rt, "m2")}}
		}
		c.DataPresent = rapid.IntRange(0, 2).Draw(rt, "dp")
		if !do(c) {
			rt.Fatalf("C19 failed")
		}
	})
}
