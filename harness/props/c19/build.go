// Package c19 builds well-checksummed but inconsistent PAR1/PAR2 archives.
package c19

import (
	"bytes"
	"crypto/md5"
	"encoding/binary"
	"fmt"
	"strconv"
	"strings"

	"verifharness/ref/par1ref"
	"verifharness/ref/par2ref"
)

// Mut sets one field to a value. Field grammar:
//   par2: slice_size | nrec | ids:{dup,unsorted,extra,missing,reverse} | f<i>.length | f<i>.md5 | f<i>.md516k | f<i>.pairs | f<i>.name |
//         r<j>.exp | r<j>.len | pktlen:<file>:<k> | drop:<type>:<file> | dup:<type>:<file> | ifscid:<i> | recvinindex | recvonlyinindex
//   par1: h<file>.<version|volnum|count|listoff|listsize|dataoff|datasize> | e<k>.<entrysize|status|size|name> | addentries | vol.datalen | novols
type Mut struct {
	Field string `json:"field"`
	Val   uint64 `json:"val"`
}

// Case is a mutated archive plus the data-file state.
type Case struct {
	Format      string `json:"format"`
	Muts        []Mut  `json:"muts"`
	DataPresent int    `json:"data_present"` // 0: all data files missing, 1: all present, 2: first missing
	Conformant  bool   `json:"conformant,omitempty"` // the mutations keep the set conformant: Verify must succeed and Repair must restore the files
}

var p2names = []string{"a.dat", "sub/b.bin"}

func p2data(i int) []byte {
	n := []int{20, 9}[i]
	b := make([]byte, n)
	for k := range b {
		b[k] = byte(37*k + 11 + 101*i)
	}
	return b
}

type decl struct {
	Name   string
	Length uint64
	MD5    [16]byte
	MD516k [16]byte
	Has16k bool
}

// BuildPAR2 returns the files of the mutated set (relative name -> bytes), the declared slice size and the declarations.
func BuildPAR2(muts []Mut) (map[string][]byte, uint64, []decl) {
	const S = 8
	sliceSize := uint64(S)
	type fsp struct {
		f      par2ref.SetFile
		npairs int
		ifscID *[16]byte
	}
	var files []fsp
	for i, n := range p2names {
		f := par2ref.NewSetFile(n, p2data(i), S)
		files = append(files, fsp{f: f, npairs: len(f.Pairs)})
	}
	type rsp struct {
		exp uint32
		len int
	}
	var recs []rsp
	for e := 0; e < 6; e++ {
		recs = append(recs, rsp{uint32(e), S})
	}
	recvInIndex, recvInVolume := false, true
	nrecOverride := int64(-1)
	idsMode := ""
	pktlen := map[string]uint64{}
	drop := map[string]bool{}
	dup := map[string]bool{}
	for _, m := range muts {
		f := m.Field
		switch {
		case f == "slice_size":
			sliceSize = m.Val
		case f == "exps":
			// whole exponent sets: the two lowest exponents form a specification-singular pair for slices 0 and 2 (constants 2^1 and 2^4: (2^3)^21845 = 1)
			sets := [][]uint32{{0, 21845, 21846, 21847, 21848, 21849}, {0, 21845, 43690, 43691, 43692, 43693}, {21845, 43690, 1, 2, 3, 4}}
			for j, e := range sets[m.Val%uint64(len(sets))] {
				recs[j].exp = e
			}
		case f == "nrec":
			nrecOverride = int64(m.Val)
		case strings.HasPrefix(f, "ids:"):
			idsMode = f[4:]
		case strings.HasPrefix(f, "ifscid:"):
			i, _ := strconv.Atoi(f[7:])
			var id [16]byte
			binary.LittleEndian.PutUint64(id[:], m.Val)
			files[i%len(files)].ifscID = &id
		case strings.HasPrefix(f, "f") && strings.Contains(f, "."):
			i, _ := strconv.Atoi(f[1:strings.Index(f, ".")])
			fs := &files[i%len(files)]
			switch f[strings.Index(f, ".")+1:] {
			case "length":
				fs.f.Length = m.Val
			case "md5":
				fs.f.MD5[0] ^= byte(m.Val | 1)
			case "md516k":
				fs.f.MD516k[0] ^= byte(m.Val | 1)
			case "pairs":
				fs.npairs = int(m.Val)
			case "name":
				fs.f.Name = []string{"", "a.dat", "é", "x\x00y", strings.Repeat("n", 1000)}[m.Val%5]
			}
		case strings.HasPrefix(f, "r") && strings.Contains(f, "."):
			j, _ := strconv.Atoi(f[1:strings.Index(f, ".")])
			r := &recs[j%len(recs)]
			if strings.HasSuffix(f, ".exp") {
				r.exp = uint32(m.Val)
			} else {
				r.len = int(m.Val)
			}
		case f == "recvonlyinindex":
			// a single-file set: the recovery packets are in the file given to Verify/Repair and nowhere else
			recvInIndex, recvInVolume = true, false
		case f == "recvinindex":
			// the file given to Verify/Repair carries the recovery packets as well (a single-file set, or a volume passed as the index)
			recvInIndex = true
		case strings.HasPrefix(f, "pktlen:"):
			pktlen[f[7:]] = m.Val
		case strings.HasPrefix(f, "drop:"):
			drop[f[5:]] = true
		case strings.HasPrefix(f, "dup:"):
			dup[f[4:]] = true
		}
	}
	// re-derive file IDs from the (mutated) 16k hash, length and name
	for i := range files {
		files[i].f.ID = par2ref.FileID(files[i].f.MD516k, files[i].f.Length, []byte(files[i].f.Name))
	}
	order := []int{0, 1}
	if par2ref.IDLess(files[1].f.ID, files[0].f.ID) {
		order = []int{1, 0}
	}
	var ids [][16]byte
	for _, k := range order {
		ids = append(ids, files[k].f.ID)
	}
	switch idsMode {
	case "dup":
		ids = [][16]byte{ids[0], ids[0]}
	case "unsorted", "reverse":
		ids = [][16]byte{ids[1], ids[0]}
	case "extra":
		var x [16]byte
		x[15] = 0xff
		ids = append(ids, x)
	case "missing":
		ids = ids[:1]
	}
	nrec := uint32(len(ids))
	if idsMode == "extra" {
		nrec = 2
	}
	if nrecOverride >= 0 {
		nrec = uint32(nrecOverride)
	}
	var mb bytes.Buffer
	binary.Write(&mb, binary.LittleEndian, sliceSize)
	binary.Write(&mb, binary.LittleEndian, nrec)
	for _, id := range ids {
		mb.Write(id[:])
	}
	mainBody := mb.Bytes()
	setID := md5.Sum(mainBody)
	pk := func(t [16]byte, body []byte) par2ref.Packet { return par2ref.Packet{SetID: setID, Type: t, Body: body} }
	var crit []par2ref.Packet
	var critTypes []string
	crit = append(crit, pk(par2ref.TypeMain, mainBody))
	critTypes = append(critTypes, "main")
	for _, k := range order {
		fs := files[k]
		crit = append(crit, pk(par2ref.TypeFileDesc, par2ref.FileDescBody(fs.f)))
		critTypes = append(critTypes, "desc")
		g := fs.f
		for len(g.Pairs) < fs.npairs && len(g.Pairs) < 5000 {
			g.Pairs = append(g.Pairs, g.Pairs[len(g.Pairs)%len(fs.f.Pairs)])
		}
		if fs.npairs < len(g.Pairs) {
			g.Pairs = g.Pairs[:fs.npairs]
		}
		if fs.ifscID != nil {
			g.ID = *fs.ifscID
		}
		crit = append(crit, pk(par2ref.TypeIFSC, par2ref.IFSCBody(g)))
		critTypes = append(critTypes, "ifsc")
	}
	creator := pk(par2ref.TypeCreator, par2ref.CreatorBody("verif inconsistent writer"))
	// recovery blocks are computed for the true data so that an otherwise valid set is fully repairable
	trueSet := par2ref.NewSet(S, map[string][]byte{p2names[0]: p2data(0), p2names[1]: p2data(1)})
	slices := trueSet.Slices()
	assemble := func(fileIdx int, withRec bool) []byte {
		type tp struct {
			t string
			p par2ref.Packet
		}
		var list []tp
		list = append(list, tp{"creator", creator})
		for i, p := range crit {
			list = append(list, tp{critTypes[i], p})
		}
		if withRec {
			for _, r := range recs {
				blk := par2ref.RecoveryBlock(slices, S, int(r.exp%65536))
				data := make([]byte, r.len)
				copy(data, blk)
				for k := S; k < r.len; k++ {
					data[k] = byte(k)
				}
				list = append(list, tp{"recv", pk(par2ref.TypeRecvSlic, par2ref.RecoveryBody(r.exp, data))})
			}
		}
		var out []byte
		k := 0
		for _, e := range list {
			key := fmt.Sprintf("%s:%d", e.t, fileIdx)
			if drop[key] {
				continue
			}
			n := 1
			if dup[key] {
				n = 2
			}
			for ; n > 0; n-- {
				if l, ok := pktlen[fmt.Sprintf("%d:%d", fileIdx, k)]; ok {
					out = append(out, e.p.EncodeWith(l, true)...)
				} else {
					out = append(out, e.p.Encode()...)
				}
				k++
			}
		}
		return out
	}
	out := map[string][]byte{"set.par2": assemble(0, recvInIndex), "set.vol00+06.par2": assemble(1, recvInVolume)}
	var ds []decl
	for _, fs := range files {
		ds = append(ds, decl{fs.f.Name, fs.f.Length, fs.f.MD5, fs.f.MD516k, true})
	}
	return out, sliceSize, ds
}

var p1names = []string{"a.dat", "b.bin", "c c"}

func p1data(i int) []byte {
	n := []int{10, 4, 7}[i]
	b := make([]byte, n)
	for k := range b {
		b[k] = byte(29*k + 7 + 83*i)
	}
	return b
}

// BuildPAR1 returns the files of the mutated PAR1 set and the declarations.
func BuildPAR1(muts []Mut) (map[string][]byte, []decl) {
	var es []par1ref.Entry
	var datas [][]byte
	for i, n := range p1names {
		es = append(es, par1ref.NewEntry(n, p1data(i), true))
		datas = append(datas, p1data(i))
	}
	nvol := 3
	vols := make([]par1ref.Volume, nvol+1)
	dataLen := -1
	volFirst := 1
	u := func(v uint64) *uint64 { return &v }
	extra := 0
	noVols := false
	for _, m := range muts {
		f := m.Field
		switch {
		case strings.HasPrefix(f, "e") && strings.Contains(f, "."):
			k, _ := strconv.Atoi(f[1:strings.Index(f, ".")])
			e := &es[k%len(es)]
			switch f[strings.Index(f, ".")+1:] {
			case "entrysize":
				e.EntrySize = m.Val
			case "status":
				e.Status = m.Val
			case "size":
				e.Size = m.Val
			case "name":
				// raw UTF-16LE names that no string can produce: unpaired surrogates at the end / start / middle, an odd byte count
				e.NameRaw = [][]byte{{'a', 0, 0x3d, 0xd8}, {0x00, 0xdc, 'a', 0}, {'a', 0, 0x3d, 0xd8, 'b', 0}, {'a', 0, 'b'}, {0xff, 0xff}, {0x00, 0xd8}, {}}[m.Val%7]
			}
		case f == "addentries":
			extra = int(m.Val)
		case f == "novols":
			noVols = true
		case f == "vol.first":
			volFirst = int(m.Val)
		case f == "vol.datalen":
			dataLen = int(m.Val)
		}
	}
	for k := 0; k < extra; k++ {
		e := par1ref.NewEntry(fmt.Sprintf("x%03d", k), nil, false)
		es = append(es, e)
	}
	sh := par1ref.SetHash(es)
	for v := 0; v <= nvol; v++ {
		vols[v] = par1ref.Volume{SetHash: sh, VolNumber: uint64(v), Entries: es}
		if v > 0 {
			vols[v].VolNumber = uint64(volFirst + v - 1)
			d := par1ref.Parity(datas, volFirst+v-1)
			if dataLen >= 0 {
				nd := make([]byte, dataLen)
				copy(nd, d)
				d = nd
			}
			vols[v].Data = d
		}
	}
	for _, m := range muts {
		f := m.Field
		if !strings.HasPrefix(f, "h") || !strings.Contains(f, ".") {
			continue
		}
		v, _ := strconv.Atoi(f[1:strings.Index(f, ".")])
		vol := &vols[v%(nvol+1)]
		switch f[strings.Index(f, ".")+1:] {
		case "version":
			vol.Version = m.Val
		case "volnum":
			vol.VolNumber = m.Val
		case "count":
			vol.FileCount = u(m.Val)
		case "listoff":
			vol.ListOffset = u(m.Val)
		case "listsize":
			vol.ListSize = u(m.Val)
		case "dataoff":
			vol.DataOffset = u(m.Val)
		case "datasize":
			vol.DataSize = u(m.Val)
		}
	}
	out := map[string][]byte{}
	for v := 0; v <= nvol; v++ {
		n := "set.par"
		if v > 0 {
			n = fmt.Sprintf("set.p%02d", volFirst+v-1)
		}
		if v > 0 && noVols {
			continue // the set has lost every parity volume: only the index is left
		}
		out[n] = vols[v].Encode()
	}
	var ds []decl
	for _, e := range es {
		ds = append(ds, decl{e.Name, e.Size, e.MD5, e.MD516k, true})
	}
	return out, ds
}
