package c19

// Coverage-guided stage of C19.  The fuzz input is an edit script that is applied to the packets (PAR2) or to the
// checksummed region (PAR1) of a valid set; afterwards every packet / volume is re-checksummed, so that - as the
// property demands - only semantic validation can reject the result.  Compared with the field x value grid of
// TestCheck the scripts are free-form: any byte of any packet body, any body length, packets deleted, duplicated,
// moved between the index and the volume file, retyped, fields copied from one packet into another, up to 12 edits.

import (
	"bytes"
	"crypto/md5"
	"encoding/binary"
	"fmt"
	"sort"
	"strings"
	"sync"
	"testing"

	"verifharness/ref/par2ref"
	"verifharness/ref/run"
)

type rd struct {
	b []byte
	i int
}

func (r *rd) more() bool { return r.i < len(r.b) }
func (r *rd) u8() int {
	if r.i >= len(r.b) {
		return 0
	}
	v := r.b[r.i]
	r.i++
	return int(v)
}
func (r *rd) take(n int) []byte {
	out := make([]byte, n)
	for k := range out {
		out[k] = byte(r.u8())
	}
	return out
}
func (r *rd) u64() uint64 { return binary.LittleEndian.Uint64(r.take(8)) }

func valueGrid(cur uint64) []uint64 {
	return []uint64{0, 1, 2, 3, cur - 1, cur + 1, cur + 4, cur - 4, 2 * cur, cur / 2, 255, 256, 65535, 65536, 1<<31 - 1, 1 << 31, 1<<32 - 1, 1 << 32, 1 << 40,
		1<<63 - 4, 1<<63 - 1, 1 << 63, 1<<64 - 4, 1<<64 - 1, 4, 8, 12, 16, 20, 56, 64}
}

func pickValue(r *rd, cur uint64) uint64 {
	g := valueGrid(cur)
	sel := r.u8()
	if sel < len(g) {
		return g[sel]
	}
	if sel < 64 {
		return uint64(sel)
	}
	return r.u64()
}

// ---------------------------------------------------------------- PAR2

type fpkt struct {
	file int // 0 index, 1 volume
	typ  [16]byte
	body []byte
}

var (
	base2Once sync.Once
	base2     []fpkt
	base2Set  [16]byte
)

var unknownType = [16]byte{'P', 'A', 'R', ' ', '2', '.', '0', 0, 'U', 'n', 'k', 'n', 'o', 'w', 'n', 0}

func basePackets2() []fpkt {
	base2Once.Do(func() {
		files, _, _ := BuildPAR2(nil)
		for fi, n := range []string{"set.par2", "set.vol00+06.par2"} {
			ps, err := par2ref.ScanStrict(files[n])
			if err != nil {
				panic(err)
			}
			for _, p := range ps {
				base2 = append(base2, fpkt{fi, p.Type, append([]byte{}, p.Body...)})
				base2Set = p.SetID
			}
		}
	})
	out := make([]fpkt, len(base2))
	for i, p := range base2 {
		out[i] = fpkt{p.file, p.typ, append([]byte{}, p.body...)}
	}
	return out
}

type script2 struct {
	files       map[string][]byte
	decls       []decl
	slice       uint64
	dataPresent int
	doubleCheck bool
	nops        int
	ops         []string
}

func decodeScript2(data []byte) script2 {
	r := &rd{b: data}
	h := r.u8()
	sc := script2{dataPresent: h & 3, doubleCheck: h&4 != 0}
	fixSet, fixIDs, sortIDs := h&8 == 0, h&16 != 0, h&32 != 0
	ps := basePackets2()
	types := [][16]byte{par2ref.TypeMain, par2ref.TypeFileDesc, par2ref.TypeIFSC, par2ref.TypeRecvSlic, par2ref.TypeCreator, unknownType}
	for r.more() && sc.nops < 12 && len(ps) > 0 {
		op := r.u8() % 10
		p := r.u8() % len(ps)
		b := ps[p].body
		sc.nops++
		switch op {
		case 0: // set a 4- or 8-byte little-endian field
			w := 8
			o := r.u8()
			if o&1 != 0 {
				w = 4
			}
			off := (o >> 1) * 4
			if len(b) < w {
				sc.ops = append(sc.ops, "set:short")
				break
			}
			off %= len(b) - w + 1
			off -= off % 4
			var cur uint64
			if w == 8 {
				cur = binary.LittleEndian.Uint64(b[off:])
			} else {
				cur = uint64(binary.LittleEndian.Uint32(b[off:]))
			}
			v := pickValue(r, cur)
			if w == 8 {
				binary.LittleEndian.PutUint64(b[off:], v)
			} else {
				binary.LittleEndian.PutUint32(b[off:], uint32(v))
			}
			sc.ops = append(sc.ops, fmt.Sprintf("set:p%d@%d/%d=%#x", p, off, w, v))
		case 1: // resize the body
			deltas := []int{-20, -16, -8, -4, -1, 1, 4, 8, 16, 20, 56, 400}
			d := deltas[r.u8()%len(deltas)]
			n := len(b) + d
			if n < 0 {
				n = 0
			}
			nb := make([]byte, n)
			copy(nb, b)
			for k := len(b); k < n; k++ {
				if len(b) > 0 {
					nb[k] = b[k%len(b)]
				}
			}
			ps[p].body = nb
			sc.ops = append(sc.ops, fmt.Sprintf("resize:p%d%+d", p, d))
		case 2:
			ps = append(ps[:p], ps[p+1:]...)
			sc.ops = append(sc.ops, fmt.Sprintf("delete:p%d", p))
		case 3:
			q := r.u8() % (len(ps) + 1)
			cp := fpkt{ps[p].file, ps[p].typ, append([]byte{}, b...)}
			ps = append(ps[:q], append([]fpkt{cp}, ps[q:]...)...)
			sc.ops = append(sc.ops, fmt.Sprintf("dup:p%d->%d", p, q))
		case 4:
			ps[p].file ^= 1
			sc.ops = append(sc.ops, fmt.Sprintf("move:p%d", p))
		case 5:
			ps[p].typ = types[r.u8()%len(types)]
			sc.ops = append(sc.ops, fmt.Sprintf("retype:p%d", p))
		case 6: // raw bytes
			n := r.u8()%16 + 1
			raw := r.take(n)
			if len(b) > 0 {
				off := r.u8() * 2 % len(b)
				copy(b[off:], raw)
				sc.ops = append(sc.ops, fmt.Sprintf("raw:p%d@%d+%d", p, off, n))
			}
		case 7:
			q := r.u8() % len(ps)
			ps[p], ps[q] = ps[q], ps[p]
			sc.ops = append(sc.ops, fmt.Sprintf("swap:p%d,p%d", p, q))
		case 8: // copy 16 bytes (an ID or a hash) from another packet
			q := r.u8() % len(ps)
			o1, o2 := r.u8()*4, r.u8()*4
			if len(b) >= 16 && len(ps[q].body) >= 16 {
				o1 %= len(b) - 15
				o2 %= len(ps[q].body) - 15
				copy(b[o1:o1+16], ps[q].body[o2:o2+16])
				sc.ops = append(sc.ops, fmt.Sprintf("copy16:p%d@%d<-p%d@%d", p, o1, q, o2))
			}
		case 9: // replace the name of a file description packet
			n := r.u8() % 24
			name := r.take(n)
			if ps[p].typ == par2ref.TypeFileDesc && len(b) >= 56 {
				ps[p].body = append(append([]byte{}, b[:56]...), par2ref.Pad4(name)...)
				sc.ops = append(sc.ops, fmt.Sprintf("name:p%d=%q", p, name))
			}
		}
	}
	// optional fix-ups, so that deeper consistency checks are reached
	if fixIDs {
		for i := range ps {
			if ps[i].typ != par2ref.TypeFileDesc || len(ps[i].body) < 56 {
				continue
			}
			d, err := par2ref.ParseFileDesc(ps[i].body)
			if err != nil {
				continue
			}
			nid := par2ref.FileID(d.MD516k, d.Length, []byte(d.Name))
			old := d.ID
			if old == nid {
				continue
			}
			for k := range ps {
				switch ps[k].typ {
				case par2ref.TypeFileDesc, par2ref.TypeIFSC:
					if len(ps[k].body) >= 16 && bytes.Equal(ps[k].body[:16], old[:]) {
						copy(ps[k].body, nid[:])
					}
				case par2ref.TypeMain:
					for o := 12; o+16 <= len(ps[k].body); o += 16 {
						if bytes.Equal(ps[k].body[o:o+16], old[:]) {
							copy(ps[k].body[o:], nid[:])
						}
					}
				}
			}
		}
	}
	if sortIDs {
		for k := range ps {
			if ps[k].typ == par2ref.TypeMain && len(ps[k].body) >= 12 && (len(ps[k].body)-12)%16 == 0 {
				m, _ := par2ref.ParseMain(ps[k].body)
				sort.Slice(m.IDs, func(a, b int) bool { return par2ref.IDLess(m.IDs[a], m.IDs[b]) })
				for j, id := range m.IDs {
					copy(ps[k].body[12+16*j:], id[:])
				}
			}
		}
	}
	setID := base2Set
	if fixSet {
		for _, p := range ps {
			if p.typ == par2ref.TypeMain {
				setID = md5.Sum(p.body)
				break
			}
		}
	}
	out := map[string][]byte{"set.par2": nil, "set.vol00+06.par2": nil}
	names := []string{"set.par2", "set.vol00+06.par2"}
	sc.slice = 8
	first := true
	for _, p := range ps {
		out[names[p.file]] = append(out[names[p.file]], par2ref.Packet{SetID: setID, Type: p.typ, Body: p.body}.Encode()...)
		if p.typ == par2ref.TypeMain && len(p.body) >= 8 {
			if s := binary.LittleEndian.Uint64(p.body); first || s > sc.slice {
				sc.slice = s
				first = false
			}
		}
		if p.typ == par2ref.TypeFileDesc {
			if d, err := par2ref.ParseFileDesc(p.body); err == nil {
				sc.decls = append(sc.decls, decl{d.Name, d.Length, d.MD5, d.MD516k, true})
			}
		}
	}
	for n, b := range out {
		if b == nil {
			out[n] = []byte{}
		}
	}
	sc.files = out
	return sc
}

func p2DataMap() map[string][]byte {
	m := map[string][]byte{}
	for i, n := range p2names {
		m[n] = p2data(i)
	}
	return m
}

func script2Oracle(data []byte) (msg, key, class string, nontrivial bool) {
	if len(data) > 400 {
		return "", "", "skipped:long", false
	}
	sc := decodeScript2(data)
	if sc.slice >= 1<<22 {
		// scanning with a declared slice size of many MiB legitimately costs that much memory and time per input;
		// those sizes are covered by the field grid of TestCheck
		return "", "", "skipped:large-declared-slice-size", false
	}
	r := evalFiles("par2", sc.files, sc.slice, sc.decls, p2DataMap(), sc.dataPresent, false, sc.doubleCheck)
	if r.Msg == "" && r.Alloc > 256<<20+64*sc.slice {
		r.Msg = fmt.Sprintf("allocated %d MiB for an archive of a few KiB (declared slice size %d)", r.Alloc>>20, sc.slice)
	}
	if r.Msg != "" {
		r.Msg = fmt.Sprintf("%s [edit script: %s; data state %d]", r.Msg, strings.Join(sc.ops, " "), sc.dataPresent)
	}
	return r.Msg, "", fmt.Sprintf("par2:ops=%d", sc.nops), sc.nops > 0
}

// ---------------------------------------------------------------- PAR1

var (
	base1Once  sync.Once
	base1      map[string][]byte
	base1Names = []string{"set.par", "set.p01", "set.p02", "set.p03"}
)

type script1 struct {
	files       map[string][]byte
	decls       []decl
	dataPresent int
	doubleCheck bool
	nops        int
	ops         []string
}

// lenientEntries walks the file list of a PAR1 volume as far as it is well formed.
func lenientEntries(b []byte) (out []struct {
	status, size uint64
	md5, md516k  [16]byte
}) {
	if len(b) < 0x60 {
		return nil
	}
	count := binary.LittleEndian.Uint64(b[0x38:])
	off := binary.LittleEndian.Uint64(b[0x40:])
	if off > uint64(len(b)) {
		return nil
	}
	for k := uint64(0); k < count && k < 2000; k++ {
		if uint64(len(b))-off < 56 {
			break
		}
		es := binary.LittleEndian.Uint64(b[off:])
		if es < 56 || es > uint64(len(b))-off {
			break
		}
		var e struct {
			status, size uint64
			md5, md516k  [16]byte
		}
		e.status = binary.LittleEndian.Uint64(b[off+8:])
		e.size = binary.LittleEndian.Uint64(b[off+16:])
		copy(e.md5[:], b[off+24:])
		copy(e.md516k[:], b[off+40:])
		out = append(out, e)
		off += es
	}
	return out
}

func decodeScript1(data []byte) script1 {
	base1Once.Do(func() { base1, _ = BuildPAR1(nil) })
	r := &rd{b: data}
	h := r.u8()
	sc := script1{dataPresent: h % 3, doubleCheck: h&4 != 0}
	fixSetHash := h&8 != 0
	files := map[string][]byte{}
	for n, b := range base1 {
		files[n] = append([]byte{}, b...)
	}
	for r.more() && sc.nops < 10 {
		op := r.u8() % 5
		sel := r.u8()
		targets := []string{base1Names[sel%4]}
		if sel&0x80 != 0 {
			targets = base1Names
		}
		sc.nops++
		switch op {
		case 0: // set a 64-bit field in the checksummed region
			o := r.u8()
			v0 := r.u8()
			var lit uint64
			if v0 >= 64 {
				lit = r.u64()
			}
			for _, n := range targets {
				b := files[n]
				if len(b) < 0x28 {
					continue
				}
				off := 0x20 + (o*8)%(len(b)-0x20-7)
				off -= off % 8
				cur := binary.LittleEndian.Uint64(b[off:])
				g := valueGrid(cur)
				v := lit
				if v0 < len(g) {
					v = g[v0]
				} else if v0 < 64 {
					v = uint64(v0)
				}
				binary.LittleEndian.PutUint64(b[off:], v)
				sc.ops = append(sc.ops, fmt.Sprintf("set:%s@%#x=%#x", n, off, v))
			}
		case 1: // cut or extend at the end
			deltas := []int{-57, -56, -16, -8, -2, -1, 1, 2, 8, 56, 66, 300}
			d := deltas[r.u8()%len(deltas)]
			for _, n := range targets {
				b := files[n]
				m := len(b) + d
				if m < 0 {
					m = 0
				}
				nb := make([]byte, m)
				copy(nb, b)
				files[n] = nb
				sc.ops = append(sc.ops, fmt.Sprintf("resize:%s%+d", n, d))
			}
		case 2: // raw bytes
			k := r.u8()%16 + 1
			raw := r.take(k)
			o := r.u8()
			for _, n := range targets {
				b := files[n]
				if len(b) > 0x20 {
					off := 0x20 + (o*2)%(len(b)-0x20)
					copy(b[off:], raw)
					sc.ops = append(sc.ops, fmt.Sprintf("raw:%s@%#x+%d", n, off, k))
				}
			}
		case 3: // remove or repeat a block inside the file (shifts everything behind it)
			o, l, rep := r.u8(), (r.u8()%9+1)*8, r.u8()&1 != 0
			for _, n := range targets {
				b := files[n]
				if len(b) < 0x60+l {
					continue
				}
				off := 0x60 + (o*2)%(len(b)-0x60-l+1)
				if rep {
					nb := append(append(append([]byte{}, b[:off+l]...), b[off:off+l]...), b[off+l:]...)
					files[n] = nb
				} else {
					files[n] = append(append([]byte{}, b[:off]...), b[off+l:]...)
				}
				sc.ops = append(sc.ops, fmt.Sprintf("block:%s@%#x+%d rep=%v", n, off, l, rep))
			}
		case 4: // the file's content is taken from another file of the set
			src := base1Names[r.u8()%4]
			for _, n := range targets[:1] {
				files[n] = append([]byte{}, files[src]...)
				sc.ops = append(sc.ops, fmt.Sprintf("copyfile:%s<-%s", n, src))
			}
		}
	}
	if fixSetHash {
		// the set hash of the index volume's (edited) list, written into every volume
		var in []byte
		for _, e := range lenientEntries(files["set.par"]) {
			if e.status&1 != 0 {
				in = append(in, e.md5[:]...)
			}
		}
		sh := md5.Sum(in)
		for _, b := range files {
			if len(b) >= 0x30 {
				copy(b[0x20:], sh[:])
			}
		}
	}
	for _, b := range files {
		if len(b) >= 0x20 {
			sum := md5.Sum(b[0x20:])
			copy(b[0x10:], sum[:])
		}
		for _, e := range lenientEntries(b) {
			sc.decls = append(sc.decls, decl{"", e.size, e.md5, e.md516k, true})
		}
	}
	sc.files = files
	return sc
}

func script1Oracle(data []byte) (msg, key, class string, nontrivial bool) {
	if len(data) > 400 {
		return "", "", "skipped:long", false
	}
	sc := decodeScript1(data)
	d := map[string][]byte{}
	for i, n := range p1names {
		d[n] = p1data(i)
	}
	r := evalFiles("par1", sc.files, 0, sc.decls, d, sc.dataPresent, false, sc.doubleCheck)
	if r.Msg == "" && r.Alloc > 256<<20 {
		r.Msg = fmt.Sprintf("allocated %d MiB for an archive of a few hundred bytes", r.Alloc>>20)
	}
	if r.Msg != "" {
		r.Msg = fmt.Sprintf("%s [edit script: %s; data state %d]", r.Msg, strings.Join(sc.ops, " "), sc.dataPresent)
	}
	return r.Msg, "", fmt.Sprintf("par1:ops=%d", sc.nops), sc.nops > 0
}

var fuzzOracles = map[string]run.FuzzOracle{"FuzzPar2Script": script2Oracle, "FuzzPar1Script": script1Oracle}

func FuzzPar2Script(f *testing.F) {
	for h := 0; h < 64; h += 5 {
		f.Add([]byte{byte(h)})
	}
	// hand-written scripts: slice size, recovery-set count, an exponent, body sizes, packet removal / duplication / moves
	for _, s := range [][]byte{
		{0, 0, 1, 0, 24}, {1, 0, 1, 0, 8}, {2, 0, 1, 5, 0}, {0, 0, 13, 1, 21}, {1, 1, 3, 4}, {2, 1, 9, 0}, {0, 2, 1}, {1, 2, 7}, {16, 0, 2, 96, 1},
		{2, 3, 1, 0}, {0, 4, 13}, {1, 5, 12, 0}, {0, 8, 1, 2, 3, 3}, {48, 9, 2, 4, 'x', '.', 'y', 0}, {1, 7, 2, 4}, {0, 6, 14, 3, 1, 2, 3, 4, 0},
	} {
		f.Add(s)
	}
	run.Fuzz(f, "C19", script2Oracle, func(data []byte) string {
		sc := decodeScript2(data)
		return fmt.Sprintf("par2 script (data state %d): %s", sc.dataPresent, strings.Join(sc.ops, " "))
	})
}

func FuzzPar1Script(f *testing.F) {
	for h := 0; h < 16; h++ {
		f.Add([]byte{byte(h)})
	}
	for _, s := range [][]byte{
		{0, 0, 0, 3, 1}, {1, 0, 1, 4, 21}, {2, 0, 0x80, 5, 0}, {0, 0, 2, 7, 5}, {1, 1, 0, 3}, {2, 1, 0x81, 9}, {8, 0, 0x80, 9, 0}, {9, 3, 0x80, 0, 0, 0},
		{0, 3, 1, 4, 2, 1}, {1, 4, 1, 2}, {2, 2, 0, 3, 1, 2, 3, 4, 40}, {0, 0, 0x80, 8, 3},
	} {
		f.Add(s)
	}
	run.Fuzz(f, "C19", script1Oracle, func(data []byte) string {
		sc := decodeScript1(data)
		return fmt.Sprintf("par1 script (data state %d): %s", sc.dataPresent, strings.Join(sc.ops, " "))
	})
}
