// C13: corruption, truncation and interrupted writes never crash or mislead.
package c13

import (
	"bytes"
	"encoding/binary"
	"fmt"
	"os"
	"path/filepath"
	"sort"
	"strings"
	"testing"

	"github.com/akalin/gopar/par1"
	"github.com/akalin/gopar/par2"
	"pgregory.net/rapid"
	"verifharness/ref/fsx"
	"verifharness/ref/model"
	"verifharness/ref/par1ref"
	"verifharness/ref/par2ref"
	"verifharness/ref/run"
	"verifharness/ref/scen"
)

// Base describes the valid set that is mutated.
type Base struct {
	Format string          `json:"format"` // par2 | par1
	Files  []scen.FileSpec `json:"files"`
	Slice  int             `json:"slice,omitempty"`
	N      int             `json:"n"` // recovery blocks / volumes
}

// Mut is one mutation of the archive files.
type Mut struct {
	Op   string `json:"op"`   // trunc flip garbage zeros empty delete subset prefix
	File int    `json:"file"` // index into the sorted archive file list
	Off  int    `json:"off,omitempty"`
	Bit  int    `json:"bit,omitempty"`
	Mask int    `json:"mask,omitempty"` // subset: bit i set = archive file i deleted
	Raw  []byte `json:"raw,omitempty"`  // raw: the file's new content (coverage-guided stage)
}

// Case is one state.
type Case struct {
	Base Base `json:"base"`
	Mut  Mut  `json:"mut"`
	Data int  `json:"data"` // 0 intact, 1 first protected file deleted, 2 one byte flipped in the last protected file, 3 both
}

type world struct {
	root, dir string
	base      Base
	orig      map[string][]byte // protected originals
	names     []string
	arch      []string          // archive file names in Create's write order
	archData  map[string][]byte // original archive bytes
	prot      []model.ProtFile
	setID     [16]byte
	locs      map[int]model.Loc
	dataState map[int]map[string][]byte
	current   map[string][]byte // what is on disk now (all files)
}

func (w *world) close() { os.RemoveAll(w.root) }

func newWorld(b Base) (*world, error) {
	w := &world{base: b, orig: map[string][]byte{}, archData: map[string][]byte{}, locs: map[int]model.Loc{}, dataState: map[int]map[string][]byte{}, current: map[string][]byte{}}
	w.root = run.Scratch("c13")
	w.dir = filepath.Join(w.root, "w")
	S := b.Slice
	if b.Format == "par1" {
		S = 64
	}
	var paths []string
	for _, f := range b.Files {
		w.orig[f.Name] = f.Content(S)
		w.names = append(w.names, f.Name)
		paths = append(paths, filepath.Join(w.dir, f.Name))
	}
	fsx.WriteTree(w.dir, w.orig)
	before, _ := fsx.Take(w.dir)
	var err error
	if b.Format == "par2" {
		err = par2.Create(filepath.Join(w.dir, "set.par2"), paths, par2.CreateOptions{SliceByteCount: b.Slice, NumParityShards: b.N, NumGoroutines: 1})
	} else {
		err = par1.Create(filepath.Join(w.dir, "set.par"), paths, par1.CreateOptions{NumParityFiles: b.N})
	}
	if err != nil {
		return nil, err
	}
	after, _ := fsx.Take(w.dir)
	for _, ch := range fsx.Diff(before, after) {
		w.arch = append(w.arch, ch.Path)
		w.archData[ch.Path] = after[ch.Path].Data
	}
	sort.Slice(w.arch, func(i, j int) bool {
		// index first, then volumes in name order (= Create's write order)
		ii := w.arch[i] == "set.par2" || w.arch[i] == "set.par"
		jj := w.arch[j] == "set.par2" || w.arch[j] == "set.par"
		if ii != jj {
			return ii
		}
		return w.arch[i] < w.arch[j]
	})
	for n, e := range after {
		if !e.IsDir {
			w.current[n] = e.Data
		}
	}
	if b.Format == "par2" {
		w.prot = scen.ProtOrder(w.orig, b.Slice)
		w.setID = par2ref.NewSet(b.Slice, w.orig).SetID()
	}
	for ds := 0; ds < 4; ds++ {
		st := map[string][]byte{}
		for n, d := range w.orig {
			st[n] = d
		}
		if ds&1 != 0 {
			delete(st, w.names[0])
		}
		if ds&2 != 0 {
			n := w.names[len(w.names)-1]
			if d, ok := st[n]; ok && len(d) > 0 {
				d = append([]byte{}, d...)
				d[len(d)/2] ^= 0x20
				st[n] = d
			}
		}
		w.dataState[ds] = st
		if b.Format == "par2" {
			w.locs[ds] = model.Locate(b.Slice, w.prot, st)
		}
	}
	return w, nil
}

// set makes the directory contain exactly want (relative name -> bytes).
func (w *world) set(want map[string][]byte) {
	for n := range w.current {
		if _, ok := want[n]; !ok {
			os.Remove(filepath.Join(w.dir, n))
			delete(w.current, n)
		}
	}
	for n, d := range want {
		if c, ok := w.current[n]; ok && bytes.Equal(c, d) {
			continue
		}
		os.MkdirAll(filepath.Dir(filepath.Join(w.dir, n)), 0o755)
		os.WriteFile(filepath.Join(w.dir, n), d, 0o644)
		w.current[n] = d
	}
}

func (w *world) readAll() map[string][]byte {
	snap, _ := fsx.Take(w.dir)
	return snap.Files()
}

// packetBounds returns the packet start offsets (and the end) of a PAR2 file.
func packetBounds(b []byte) []int {
	var out []int
	for _, p := range par2ref.ScanTolerant(b) {
		out = append(out, p.Offset)
	}
	return append(out, len(b))
}

func garbage(n int, seed uint64) []byte {
	b := make([]byte, n)
	s := seed | 1
	for i := range b {
		s ^= s << 13
		s ^= s >> 7
		s ^= s << 17
		b[i] = byte(s >> 11)
	}
	return b
}

// apply returns the archive part of the directory after the mutation.
func (w *world) apply(m Mut) map[string][]byte {
	out := map[string][]byte{}
	for n, d := range w.archData {
		out[n] = d
	}
	name := w.arch[m.File%len(w.arch)]
	d := w.archData[name]
	switch m.Op {
	case "trunc":
		off := m.Off
		if off > len(d) {
			off = len(d)
		}
		out[name] = d[:off]
	case "flip":
		if len(d) > 0 {
			c := append([]byte{}, d...)
			c[m.Off%len(d)] ^= 1 << uint(m.Bit%8)
			out[name] = c
		}
	case "zerohash":
		// PAR1: the control hash field is wiped (all zero bytes) and one more bit of the checksummed region is flipped
		if len(d) >= 0x20 {
			c := append([]byte{}, d...)
			for k := 0x10; k < 0x20; k++ {
				c[k] = 0
			}
			if m.Off >= 0x20 && m.Off < len(c) {
				c[m.Off] ^= 1 << uint(m.Bit%8)
			}
			out[name] = c
		}
	case "raw":
		out[name] = m.Raw
	case "garbage":
		out[name] = garbage(len(d), uint64(m.Off)+5)
	case "zeros":
		out[name] = make([]byte, len(d))
	case "empty":
		out[name] = []byte{}
	case "delete":
		delete(out, name)
	case "subset":
		for i, n := range w.arch {
			if m.Mask&(1<<uint(i)) != 0 {
				delete(out, n)
			}
		}
	case "prefix":
		// interrupted Create: files after m.File were never written, file m.File is torn at m.Off
		k := m.File % len(w.arch)
		for i, n := range w.arch {
			if i > k {
				delete(out, n)
			}
		}
		off := m.Off
		if off > len(d) {
			off = len(d)
		}
		out[name] = d[:off]
	}
	return out
}

// dataMut applies a data-file mutation (ops dtrunc, dflip, dgarbage, dempty, ddelete) to the originals.
func (w *world) dataMut(m Mut) map[string][]byte {
	st := map[string][]byte{}
	for n, d := range w.orig {
		st[n] = d
	}
	name := w.names[m.File%len(w.names)]
	d := w.orig[name]
	switch m.Op {
	case "dtrunc":
		off := m.Off
		if off > len(d) {
			off = len(d)
		}
		st[name] = d[:off]
	case "dflip":
		if len(d) > 0 {
			c := append([]byte{}, d...)
			c[m.Off%len(d)] ^= 1 << uint(m.Bit%8)
			st[name] = c
		}
	case "dgarbage":
		st[name] = garbage(len(d), uint64(m.Off)+9)
	case "dslice":
		S := w.base.Slice
		if S == 0 {
			S = 64
		}
		c := append([]byte{}, d...)
		off := (m.Off * S) % (len(d) + 1)
		if off > len(c) {
			off = len(c)
		}
		copy(c[off:], garbage(S, uint64(m.Off)+17))
		st[name] = c
	case "dgrow":
		// garbage that is longer than the original (a rewrite has to truncate)
		st[name] = garbage(len(d)+m.Off, uint64(m.Off)+11)
	case "dappend":
		st[name] = append(append([]byte{}, d...), garbage(m.Off, uint64(m.Off)+13)...)
	case "dmd5twin":
		// a file that starts with one of the two published MD5-colliding blocks gets the other one (six bit flips)
		if len(d) >= 128 {
			c := append([]byte{}, d...)
			if bytes.Equal(c[:128], scen.MD5CollisionA) {
				copy(c, scen.MD5CollisionB)
			} else if bytes.Equal(c[:128], scen.MD5CollisionB) {
				copy(c, scen.MD5CollisionA)
			}
			st[name] = c
		}
	case "dswap":
		// overwritten with another protected file's content: this file and the next one exchange their contents
		other := w.names[(m.File+1)%len(w.names)]
		if other != name {
			st[name], st[other] = w.orig[other], w.orig[name]
		}
	case "dover":
		// overwritten with a copy of the next protected file (which itself stays intact)
		st[name] = w.orig[w.names[(m.File+1)%len(w.names)]]
	case "dempty":
		st[name] = []byte{}
	case "ddelete":
		delete(st, name)
	}
	return st
}

func (w *world) check(c Case) (msg, key string, parsed bool) {
	arch := w.apply(c.Mut)
	want := map[string][]byte{}
	dataMutated := strings.HasPrefix(c.Mut.Op, "d") && c.Mut.Op != "delete"
	if dataMutated {
		arch = map[string][]byte{}
		for n, d := range w.archData {
			arch[n] = d
		}
		st := w.dataMut(c.Mut)
		w.dataState[9] = st
		if w.base.Format == "par2" {
			w.locs[9] = model.Locate(w.base.Slice, w.prot, st)
		}
		c.Data = 9
	}
	for n, d := range w.dataState[c.Data&15] {
		want[n] = d
	}
	for n, d := range arch {
		want[n] = d
	}
	w.set(want)
	name := w.arch[c.Mut.File%len(w.arch)]
	_, present := arch[name]
	parsed = present && c.Mut.Op != "delete" && c.Mut.Op != "subset"
	if dataMutated {
		parsed = true
	}

	// known-finding signatures
	if w.base.Format == "par2" {
		if c.Mut.Op == "flip" {
			// D2: bit 63 (or any high bit) of a packet length field
			for _, b := range packetBounds(w.archData[name]) {
				o := c.Mut.Off % len(w.archData[name])
				if o >= b+8 && o < b+16 {
					key = "D2-packet-length-overflow"
				}
			}
		}
		if c.Mut.Op == "trunc" || c.Mut.Op == "prefix" {
			key = "D3-volume-without-main-packet"
		}
		if dataMutated {
			key = ""
		}
	}

	idx := filepath.Join(w.dir, "set.par2")
	if w.base.Format == "par1" {
		idx = filepath.Join(w.dir, "set.par")
	}
	var repaired []string
	var verr, rerr error
	if w.base.Format == "par2" {
		var vr par2.VerifyResult
		if p, m := run.Safe(func() { vr, verr = par2.Verify(idx, par2.VerifyOptions{NumGoroutines: 1}) }); p {
			return "Verify panicked: " + m, key, parsed
		}
		if verr == nil {
			loc := w.locs[c.Data&15]
			if vr.ShardCounts.UsableDataShardCount > loc.NMay {
				return fmt.Sprintf("Verify counts %d usable slices, only %d exist", vr.ShardCounts.UsableDataShardCount, loc.NMay), "", parsed
			}
			// intact recovery blocks by the tolerant reference scan
			exps := map[uint32]bool{}
			for _, d := range arch {
				for _, p := range par2ref.ScanTolerant(d) {
					if p.Type == par2ref.TypeRecvSlic && p.SetID == w.setID {
						e, blk, _ := par2ref.ParseRecovery(p.Body)
						if len(blk) == w.base.Slice {
							exps[e] = true
						}
					}
				}
			}
			if vr.ShardCounts.UsableParityShardCount > len(exps) {
				return fmt.Sprintf("Verify counts %d usable recovery blocks, only %d intact blocks are stored", vr.ShardCounts.UsableParityShardCount, len(exps)), "", parsed
			}
			allOK := true
			for n, d := range w.orig {
				if s, ok := w.dataState[c.Data&15][n]; !ok || !bytes.Equal(s, d) {
					allOK = false
				}
			}
			if !vr.ShardCounts.RepairNeeded() && !allOK {
				return "Verify reports no repair needed although a protected file is damaged", "", parsed
			}
		}
		if m := w.unchanged(want, "Verify"); m != "" {
			return m, "", parsed
		}
		var rr par2.RepairResult
		if p, m := run.Safe(func() {
			rr, rerr = par2.Repair(idx, par2.RepairOptions{NumGoroutines: 1, DoubleCheck: c.Mut.Off%2 == 0})
		}); p {
			return "Repair panicked: " + m, key, parsed
		}
		repaired = rr.RepairedPaths
	} else {
		var vr par1.VerifyResult
		if p, m := run.Safe(func() { vr, verr = par1.Verify(idx, par1.VerifyOptions{VerifyAllData: true}) }); p {
			return "Verify panicked: " + m, key, parsed
		}
		if verr == nil {
			okData := 0
			for n, d := range w.orig {
				if s, ok := w.dataState[c.Data&15][n]; ok && bytes.Equal(s, d) {
					okData++
				}
			}
			// a volume's content is intact when everything the control hash covers (from 0x20) is unchanged;
			// the generating-client bits of the version field (bytes 12..15) carry no data.  Counted: the distinct
			// original volume contents present in any file (an upper bound on what can be usable).
			okVol := 0
			for vn, vd := range w.archData {
				if vn == "set.par" {
					continue
				}
				for _, d := range arch {
					if len(d) == len(vd) && len(d) >= 0x20 && bytes.Equal(d[0x20:], vd[0x20:]) {
						okVol++
						break
					}
				}
			}
			fc := vr.FileCounts
			if fc.UsableDataFileCount > okData || fc.UsableParityFileCount > okVol {
				return fmt.Sprintf("Verify counts %d usable files / %d usable volumes, truth %d / %d", fc.UsableDataFileCount, fc.UsableParityFileCount, okData, okVol), "", parsed
			}
			if !fc.RepairNeeded() && okData != len(w.orig) {
				return "Verify reports no repair needed although a protected file is damaged", "", parsed
			}
		}
		if m := w.unchanged(want, "Verify"); m != "" {
			return m, "", parsed
		}
		var rr par1.RepairResult
		if p, m := run.Safe(func() { rr, rerr = par1.Repair(idx, par1.RepairOptions{DoubleCheck: c.Mut.Off%2 == 0}) }); p {
			return "Repair panicked: " + m, key, parsed
		}
		repaired = rr.RepairedPaths
	}
	// write rule
	after := w.readAll()
	listed := map[string]bool{}
	for _, p := range repaired {
		rel, _ := filepath.Rel(w.dir, p)
		listed[rel] = true
	}
	for n, d := range after {
		if b, ok := want[n]; ok && bytes.Equal(b, d) {
			continue
		}
		o, isProt := w.orig[n]
		if !isProt || !bytes.Equal(o, d) {
			w.current = after
			return fmt.Sprintf("Repair wrote %q with content that is not a protected original", n), "", parsed
		}
		if !listed[n] {
			w.current = after
			return fmt.Sprintf("Repair wrote %q without listing it", n), "", parsed
		}
	}
	for n := range want {
		if _, ok := after[n]; !ok {
			w.current = after
			return fmt.Sprintf("Repair deleted %q", n), "", parsed
		}
	}
	w.current = after
	if rerr == nil {
		for n, d := range w.orig {
			if !bytes.Equal(after[n], d) {
				return fmt.Sprintf("Repair returned nil but %q is not restored", n), "", parsed
			}
		}
	}
	return "", "", parsed
}

func (w *world) unchanged(want map[string][]byte, op string) string {
	after := w.readAll()
	if len(after) != len(want) {
		w.current = after
		return op + " created or deleted files"
	}
	for n, d := range want {
		if !bytes.Equal(after[n], d) {
			w.current = after
			return fmt.Sprintf("%s modified %q", op, n)
		}
	}
	return ""
}

// enumerate lists the mutations for the world.
func (w *world) enumerate(thorough bool) []Mut {
	var ms []Mut
	for fi, name := range w.arch {
		d := w.archData[name]
		n := len(d)
		var cuts map[int]bool = map[int]bool{}
		var bounds []int
		hdr := map[int]bool{}
		if w.base.Format == "par2" {
			bounds = packetBounds(d)
			for _, b := range bounds {
				for _, x := range []int{-1, 0, 1, 8, 16, 32, 48, 63, 64, 65, 68} {
					cuts[b+x] = true
				}
				for k := 0; k < 64; k++ {
					hdr[b+k] = true
				}
			}
		} else {
			p, err := par1ref.Parse(d)
			for x := 0; x <= 0x60; x += 8 {
				cuts[x] = true
				cuts[x+1] = true
				cuts[x-1] = true
			}
			for k := 0; k < 0x60; k++ {
				hdr[k] = true
			}
			if err == nil {
				off := 0x60
				for _, e := range p.Entries {
					for _, x := range []int{0, 8, 16, 24, 40, 56, 57} {
						cuts[off+x] = true
					}
					for k := 0; k < 56; k++ {
						hdr[off+k] = true
					}
					off += int(e.EntrySize)
					cuts[off], cuts[off-1], cuts[off+1] = true, true, true
				}
			}
			cuts[n-1] = true
		}
		if thorough {
			for o := 0; o < n; o++ {
				cuts[o] = true
			}
		} else {
			for k := 0; k < 48; k++ {
				cuts[(k*7919+13)%(n+1)] = true
			}
		}
		var cl []int
		for o := range cuts {
			if o >= 0 && o < n {
				cl = append(cl, o)
			}
		}
		sort.Ints(cl)
		for _, o := range cl {
			ms = append(ms, Mut{Op: "trunc", File: fi, Off: o})
		}
		// bit flips
		for o := 0; o < n; o++ {
			if hdr[o] {
				isLen := false
				if w.base.Format == "par2" {
					for _, b := range bounds {
						if o >= b+8 && o < b+16 {
							isLen = true
						}
					}
				} else if (o >= 0x38 && o < 0x60) || !isHeaderOff(o) {
					isLen = true // counts, offsets, sizes, entry fields
				}
				for bit := 0; bit < 8; bit++ {
					if thorough || isLen || bit == (o%8) {
						ms = append(ms, Mut{Op: "flip", File: fi, Off: o, Bit: bit})
					}
				}
			} else if thorough && o%3 == 0 || o%37 == 0 {
				ms = append(ms, Mut{Op: "flip", File: fi, Off: o, Bit: o % 8})
			}
		}
		ms = append(ms, Mut{Op: "garbage", File: fi, Off: 1}, Mut{Op: "garbage", File: fi, Off: 2}, Mut{Op: "zeros", File: fi}, Mut{Op: "empty", File: fi}, Mut{Op: "delete", File: fi})
		if w.base.Format == "par1" {
			ms = append(ms, Mut{Op: "zerohash", File: fi})
			for _, o := range []int{0x20, 0x30, 0x38, 0x48, 0x58, 0x60, 0x68, 0x70, 0x78, 0x60 + 56, 0x60 + 58, 0x60 + 60, n - 1} {
				for _, bit := range []int{0, 1, 5} {
					ms = append(ms, Mut{Op: "zerohash", File: fi, Off: o, Bit: bit})
				}
			}
		}
		// interrupted Create: this file torn at every packet boundary (PAR1: header/entry boundaries), later files absent
		var tears []int
		if w.base.Format == "par2" {
			tears = bounds
		} else {
			tears = []int{0, 0x10, 0x20, 0x60, n / 2, n}
		}
		for _, o := range tears {
			ms = append(ms, Mut{Op: "prefix", File: fi, Off: o})
		}
		if thorough || fi < 2 {
			for k := 1; k < 24; k++ {
				ms = append(ms, Mut{Op: "prefix", File: fi, Off: (k*n)/24 + k%3})
			}
		}
	}
	for mask := 1; mask < 1<<uint(len(w.arch)); mask++ {
		ms = append(ms, Mut{Op: "subset", Mask: mask})
	}
	// the protected files themselves: truncation at every boundary that matters (thorough: every offset), flips, garbage, emptying
	S := w.base.Slice
	if S == 0 {
		S = 64
	}
	for fi, n := range w.names {
		L := len(w.orig[n])
		cuts := map[int]bool{0: true, 1: true, L - 1: true, L / 2: true, 16383: true, 16384: true, 16385: true}
		for k := 0; k*S <= L; k++ {
			if thorough || k < 6 || k*S > L-3*S || (k*S >= 16384-S && k*S <= 16384+S) {
				cuts[k*S], cuts[k*S-1], cuts[k*S+1] = true, true, true
			}
		}
		if thorough {
			for o := 0; o < L; o += 1 + L/3000 {
				cuts[o] = true
			}
		}
		var cl []int
		for o := range cuts {
			if o >= 0 && o < L {
				cl = append(cl, o)
			}
		}
		sort.Ints(cl)
		for _, o := range cl {
			ms = append(ms, Mut{Op: "dtrunc", File: fi, Off: o})
		}
		for k := 0; k < 24; k++ {
			ms = append(ms, Mut{Op: "dflip", File: fi, Off: (k*L)/24 + k, Bit: k})
		}
		for _, o := range []int{16383, 16384, 16385, 17000, L - 2, L - 1} {
			ms = append(ms, Mut{Op: "dflip", File: fi, Off: o, Bit: 3})
		}
		ms = append(ms, Mut{Op: "dgarbage", File: fi, Off: 1}, Mut{Op: "dempty", File: fi}, Mut{Op: "ddelete", File: fi})
		if len(w.names) > 1 {
			ms = append(ms, Mut{Op: "dswap", File: fi}, Mut{Op: "dover", File: fi})
		}
		if o := w.orig[n]; len(o) >= 128 && (bytes.Equal(o[:128], scen.MD5CollisionA) || bytes.Equal(o[:128], scen.MD5CollisionB)) {
			ms = append(ms, Mut{Op: "dmd5twin", File: fi})
		}
		for k := 0; k < 8 && k*S < L; k++ {
			ms = append(ms, Mut{Op: "dslice", File: fi, Off: k})
		}
		for _, g := range []int{1, 2, S, 120, 1000} {
			ms = append(ms, Mut{Op: "dgrow", File: fi, Off: g}, Mut{Op: "dappend", File: fi, Off: g})
		}
	}
	return ms
}

func isHeaderOff(o int) bool { return o < 0x60 }

func mutClass(w *world, m Mut) string {
	switch m.Op {
	case "trunc":
		if w.base.Format == "par2" {
			for _, b := range packetBounds(w.archData[w.arch[m.File%len(w.arch)]]) {
				if m.Off == b {
					return "cut-at-packet-boundary"
				}
			}
		}
		return "cut"
	case "flip":
		if w.base.Format == "par2" {
			d := w.archData[w.arch[m.File%len(w.arch)]]
			for _, b := range packetBounds(d) {
				o := m.Off % len(d)
				switch {
				case o >= b+8 && o < b+16:
					return "flip-length-field"
				case o >= b+32 && o < b+48:
					return "flip-set-id-field"
				case o >= b+48 && o < b+64:
					return "flip-type-field"
				}
			}
			return "flip-other"
		}
		if m.Off < 0x60 {
			return "flip-par1-header"
		}
		return "flip-par1-entry-or-data"
	case "dtrunc", "dflip", "dgarbage", "dempty", "ddelete", "dgrow", "dappend", "dslice", "dswap", "dover", "dmd5twin":
		return "data-file-" + m.Op[1:]
	case "zerohash":
		return "control-hash-wiped"
	case "prefix":
		return "interrupted-create"
	case "subset":
		return "subset-deleted"
	}
	return m.Op
}

var _ = binary.LittleEndian
var _ = strings.TrimSpace

func TestCheck(t *testing.T) {
	cfg := run.Load("C13")
	rec := run.NewRec(cfg)
	defer rec.Finish(t)

	if cfg.Replay != "" {
		if rec.ReplayFuzz(cfg.Replay, fuzzOracles) {
			return
		}
		var c Case
		if _, err := run.LoadReplay(cfg.Replay, &c); err != nil {
			t.Fatal(err)
		}
		w, err := newWorld(c.Base)
		if err != nil {
			t.Fatal(err)
		}
		defer w.close()
		rec.Eval()
		if msg, key, _ := w.check(c); msg != "" {
			rec.Fail("state", c, key, msg)
		}
		return
	}
	runBase := func(b Base, offset int) bool {
		w, err := newWorld(b)
		if err != nil {
			rec.Fail("base", Case{Base: b}, "", "Create failed on the base set: "+err.Error())
			return false
		}
		defer w.close()
		ms := w.enumerate(cfg.Thorough())
		i := offset
		for _, m := range ms {
			for ds := 0; ds < 4; ds++ {
				if ds == 3 && m.Op != "prefix" && m.Op != "subset" {
					continue
				}
				if ds > 0 && strings.HasPrefix(m.Op, "d") && m.Op != "delete" {
					continue
				}
				i++
				if !cfg.Mine(i) {
					continue
				}
				c := Case{Base: b, Mut: m, Data: ds}
				rec.Eval()
				cl := mutClass(w, m)
				rec.Class(b.Format + ":" + cl)
				msg, key, parsed := w.check(c)
				if msg != "" {
					if rec.Fail(b.Format+"-"+m.Op, c, key, fmt.Sprintf("%s [%s file=%s off=%d bit=%d data=%d]", msg, m.Op, mutTarget(w, m), m.Off, m.Bit, ds)) != "" && rec.NViolations() > 6 {
						return false
					}
					continue
				}
				if parsed {
					rec.NonTrivial(c)
				}
			}
		}
		return true
	}
	for _, f := range cfg.RegressFiles() {
		if cfg.Shard == 0 && rec.ReplayFuzz(f, fuzzOracles) {
			continue
		}
		var c Case
		if _, err := run.LoadReplay(f, &c); err == nil && cfg.Shard == 0 {
			if w, err := newWorld(c.Base); err == nil {
				rec.Eval()
				if msg, key, _ := w.check(c); msg != "" {
					rec.Fail("regress", c, key, msg)
				}
				w.close()
			}
		}
	}
	bigBases := []Base{
		{Format: "par2", Slice: 64, N: 3, Files: []scen.FileSpec{{Name: "a.dat", Size: 16384 + 200, Kind: "random", Seed: 41}, {Name: "sub/b.bin", Size: 100, Kind: "random", Seed: 42}}},
		{Format: "par1", N: 2, Files: []scen.FileSpec{{Name: "a.dat", Size: 16384 + 200, Kind: "random", Seed: 43}, {Name: "b.bin", Size: 50, Kind: "random", Seed: 44}}},
		// a file whose odd slices are CRC-32 twins of the even ones (same CRC-32, different bytes)
		{Format: "par2", Slice: 8, N: 2, Files: []scen.FileSpec{{Name: "tw.dat", Size: 64, Kind: "crctwin", Seed: 51}, {Name: "o.bin", Size: 20, Kind: "random", Seed: 52}}},
		// two files with the same MD5 that differ in six bits (PAR2 only: PAR1 has nothing but MD5 to tell them apart)
		{Format: "par2", Slice: 128, N: 2, Files: []scen.FileSpec{{Name: "a.bin", Size: 200, Kind: "md5a", Seed: 5}, {Name: "b.bin", Size: 200, Kind: "md5b", Seed: 5}}},
		{Format: "par2", Slice: 64, N: 3, Files: []scen.FileSpec{{Name: "a.bin", Size: 333, Kind: "md5b", Seed: 8}, {Name: "z.bin", Size: 40, Kind: "random", Seed: 9}}},
		// protected files of exactly the same length (whole slices, and with a short last slice)
		{Format: "par2", Slice: 8, N: 2, Files: []scen.FileSpec{{Name: "p.bin", Size: 40, Kind: "random", Seed: 71}, {Name: "q.bin", Size: 40, Kind: "random", Seed: 72}, {Name: "r.bin", Size: 37, Kind: "random", Seed: 73}, {Name: "s.bin", Size: 37, Kind: "random", Seed: 74}}},
		{Format: "par1", N: 2, Files: []scen.FileSpec{{Name: "p.bin", Size: 40, Kind: "random", Seed: 75}, {Name: "q.bin", Size: 40, Kind: "random", Seed: 76}}},
		// whole-file duplicates above 16 KiB (same content under two protected names) plus a file of exactly 16384 bytes
		{Format: "par2", Slice: 1000, N: 3, Files: []scen.FileSpec{{Name: "a.dat", Size: 20000, Kind: "random", Seed: 45}, {Name: "copy of a.dat", Size: 20000, Kind: "random", Seed: 45}, {Name: "x16k", Size: 16384, Kind: "random", Seed: 46}}},
		{Format: "par1", N: 2, Files: []scen.FileSpec{{Name: "a.dat", Size: 20000, Kind: "random", Seed: 47}, {Name: "copy of a.dat", Size: 20000, Kind: "random", Seed: 47}, {Name: "x16k", Size: 16384, Kind: "random", Seed: 48}}},
	}
	for i, b := range bigBases {
		if !runBase(b, 1000+i) {
			break
		}
	}
	// base sets are drawn with rapid (same seed in every shard, so all shards see the same bases and split the states)
	nb := cfg.N(5, 14)
	flag := 0
	cfgAll := *cfg
	cfgAll.Shard = 0
	cfgAll.SetRapid(nb, 1)
	rapid.Check(t, func(rt *rapid.T) {
		flag++
		S := rapid.SampledFrom([]int{4, 8, 64}).Draw(rt, "S")
		b := Base{Format: "par2", Slice: S, N: rapid.IntRange(1, 5).Draw(rt, "n")}
		nf := rapid.IntRange(2, 3).Draw(rt, "nf")
		for i := 0; i < nf; i++ {
			b.Files = append(b.Files, scen.FileSpec{Name: []string{"a.dat", "sub/b.bin", "c c.txt"}[i], Size: rapid.IntRange(1, 5*S).Draw(rt, "size"), Kind: "random", Seed: rapid.Uint64Range(0, 9999).Draw(rt, "seed")})
		}
		if !runBase(b, flag) {
			rt.Fatalf("C13 par2 failed")
		}
	})
	cfgAll.SetRapid(nb, 2)
	rapid.Check(t, func(rt *rapid.T) {
		flag++
		b := Base{Format: "par1", N: rapid.IntRange(1, 3).Draw(rt, "n")}
		nf := rapid.IntRange(2, 4).Draw(rt, "nf")
		for i := 0; i < nf; i++ {
			b.Files = append(b.Files, scen.FileSpec{Name: []string{"a.dat", "ünï.bin", "c c.txt", "d"}[i], Size: rapid.IntRange(0, 40).Draw(rt, "size") + 1 - i%2, Kind: "random", Seed: rapid.Uint64Range(0, 9999).Draw(rt, "seed")})
		}
		if !runBase(b, flag) {
			rt.Fatalf("C13 par1 failed")
		}
	})
}

func mutTarget(w *world, m Mut) string {
	if strings.HasPrefix(m.Op, "d") && m.Op != "delete" {
		return w.names[m.File%len(w.names)]
	}
	return w.arch[m.File%len(w.arch)]
}
