package c13

import (
	"fmt"
	"sync"
	"testing"

	"verifharness/ref/run"
	"verifharness/ref/scen"
)

// Coverage-guided stage: one archive file of a valid set is replaced by arbitrary bytes ("overwritten with garbage"
// in the widest sense: the seeds are the valid files, so the engine explores cuts, splices between files, repeated
// and reordered packets, and header-field combinations that the enumeration of single faults does not).
// Input: one selector byte (low 3 bits: which archive file, next 2 bits: data-file state), then the file's new content.

var fuzzBases = map[string]Base{
	"par2": {Format: "par2", Slice: 8, N: 3, Files: []scen.FileSpec{{Name: "a.dat", Size: 37, Kind: "random", Seed: 61}, {Name: "sub/b.bin", Size: 9, Kind: "random", Seed: 62}}},
	"par1": {Format: "par1", N: 2, Files: []scen.FileSpec{{Name: "a.dat", Size: 30, Kind: "random", Seed: 63}, {Name: "b.bin", Size: 5, Kind: "random", Seed: 64}}},
}

var (
	fuzzWorlds = map[string]*world{}
	fuzzMu     sync.Mutex
)

func fuzzWorld(format string) *world {
	fuzzMu.Lock()
	defer fuzzMu.Unlock()
	if w, ok := fuzzWorlds[format]; ok {
		return w
	}
	w, err := newWorld(fuzzBases[format])
	if err != nil {
		panic(err)
	}
	fuzzWorlds[format] = w
	return w
}

func decodeRaw(format string, data []byte) (Case, bool) {
	if len(data) < 1 || len(data) > 1<<16 {
		return Case{}, false
	}
	sel := data[0]
	return Case{Base: fuzzBases[format], Mut: Mut{Op: "raw", File: int(sel & 7), Off: int(sel >> 5), Raw: append([]byte{}, data[1:]...)}, Data: int(sel>>3) & 3}, true
}

func rawOracle(format string) run.FuzzOracle {
	return func(data []byte) (msg, key, class string, nontrivial bool) {
		c, ok := decodeRaw(format, data)
		if !ok {
			return "", "", "skipped", false
		}
		w := fuzzWorld(format)
		m, k, _ := w.check(c)
		name := w.arch[c.Mut.File%len(w.arch)]
		// non-trivial: the content differs from the valid file but still starts with something the reader has to parse
		nt := string(c.Mut.Raw) != string(w.archData[name]) && len(c.Mut.Raw) >= 8
		if m != "" {
			m = fmt.Sprintf("%s [file %s replaced by %d bytes, data state %d]", m, name, len(c.Mut.Raw), c.Data)
		}
		return m, k, fmt.Sprintf("%s:file=%d", format, c.Mut.File%len(w.arch)), nt
	}
}

var fuzzOracles = map[string]run.FuzzOracle{"FuzzPar2File": rawOracle("par2"), "FuzzPar1File": rawOracle("par1")}

func fuzzSeeds(f *testing.F, format string) {
	w, err := newWorld(fuzzBases[format])
	if err != nil {
		f.Fatal(err)
	}
	defer w.close()
	for i, n := range w.arch {
		d := w.archData[n]
		for ds := 0; ds < 4; ds++ {
			f.Add(append([]byte{byte(i | ds<<3)}, d...))
		}
		// each file's content also offered under every other file's name, and two halves
		for j := range w.arch {
			if j != i {
				f.Add(append([]byte{byte(j | 1<<3)}, d...))
			}
		}
		f.Add(append([]byte{byte(i)}, d[:len(d)/2]...))
		f.Add(append([]byte{byte(i | 2<<3)}, d[len(d)/2:]...))
	}
}

func sampleRaw(format string) func([]byte) string {
	return func(data []byte) string {
		c, _ := decodeRaw(format, data)
		r := c.Mut.Raw
		if len(r) > 96 {
			r = r[:96]
		}
		return fmt.Sprintf("%s file=%d data=%d len=%d head=%x", format, c.Mut.File, c.Data, len(c.Mut.Raw), r)
	}
}

func FuzzPar2File(f *testing.F) {
	fuzzSeeds(f, "par2")
	run.Fuzz(f, "C13", fuzzOracles["FuzzPar2File"], sampleRaw("par2"))
}

func FuzzPar1File(f *testing.F) {
	fuzzSeeds(f, "par1")
	run.Fuzz(f, "C13", fuzzOracles["FuzzPar1File"], sampleRaw("par1"))
}
