package c04

import (
	"fmt"
	"os"
	"path/filepath"
	"testing"

	"github.com/akalin/gopar/par1"
	"verifharness/ref/run"
	"verifharness/ref/scen"
)

// A set that belongs to another user but is readable (a shared archive): Verify run by a user who neither owns the
// files nor has privileges must still count the truth.  The worker runs as uid 65534 on files owned by root.

func TestForeignOwnerWorker(t *testing.T) {
	idx := os.Getenv("VERIF_FO_INDEX")
	if idx == "" {
		t.Skip("worker entry point")
	}
	res, err := par1.Verify(idx, par1.VerifyOptions{VerifyAllData: true})
	e := ""
	if err != nil {
		e = err.Error()
	}
	fmt.Printf("\nREPLY err=%q usable=%d unusable=%d volumes=%d needed=%v\n", e, res.FileCounts.UsableDataFileCount, res.FileCounts.UnusableDataFileCount, res.FileCounts.UsableParityFileCount, res.FileCounts.RepairNeeded())
}

func foreignOwnerCase(k int) (msg string, ran bool) {
	root := run.Scratch("c04fo")
	defer os.RemoveAll(root)
	os.Chmod(root, 0o755)
	dir := filepath.Join(root, "shared")
	os.MkdirAll(dir, 0o755)
	var paths []string
	for i := 0; i < 3; i++ {
		f := scen.FileSpec{Name: fmt.Sprintf("f%d.dat", i), Size: 30 + 20000*((i+k)%2), Kind: "random", Seed: uint64(10*k + i)}
		p := filepath.Join(dir, f.Name)
		os.WriteFile(p, f.Content(64), 0o644)
		paths = append(paths, p)
	}
	idx := filepath.Join(dir, "set.par")
	if err := par1.Create(idx, paths, par1.CreateOptions{NumParityFiles: 2}); err != nil {
		return "harness: Create failed: " + err.Error(), true
	}
	filepath.Walk(dir, func(p string, info os.FileInfo, err error) error {
		if err == nil && !info.IsDir() {
			os.Chmod(p, 0o644)
		}
		return nil
	})
	if k%2 == 1 {
		os.Remove(paths[0])
	}
	reply, ok := run.RunTestAs(65534, "TestForeignOwnerWorker", "VERIF_FO_INDEX="+idx)
	if !ok {
		return "", false
	}
	want := `err="" usable=3 unusable=0 volumes=2 needed=false`
	if k%2 == 1 {
		want = `err="" usable=2 unusable=1 volumes=2 needed=true`
	}
	if reply != want {
		return fmt.Sprintf("Verify of a readable set owned by another user, run without privileges, reports %s; truth: %s", reply, want), true
	}
	return "", true
}
