package c04

import (
	"testing"

	"pgregory.net/rapid"
	"verifharness/ref/run"
)

// Coverage-guided stage: the PAR1 scenario generator of TestCheck driven by the fuzzing engine's bytes.
func scenProp(rt *rapid.T) run.RapidVerdict {
	c := gen(rt, 8, 6)
	v := check(c)
	return run.RapidVerdict{Case: c, Kind: "par1", Msg: v.msg, Key: v.key, Class: "expect=" + v.expect, NonTrivial: v.nontriv}
}

var fuzzProps = map[string]func(*rapid.T) run.RapidVerdict{"FuzzScenario": scenProp}

func FuzzScenario(f *testing.F) { run.FuzzRapid(f, "C04", scenProp) }
