// C04: PAR1 create / verify / repair round trip.
package c04

import (
	"fmt"
	"strings"
	"testing"

	"pgregory.net/rapid"
	"verifharness/ref/gf8"
	"verifharness/ref/run"
	"verifharness/ref/scen"
)

type verdict struct {
	msg, key string
	expect   string
	nontriv  bool
}

func check(c scen.Case1) verdict {
	var v verdict
	o := scen.Run1(c, false)
	defer o.Close()
	if o.CreatePan != "" {
		v.msg = "Create panicked: " + o.CreatePan
		return v
	}
	if o.CreateErr != nil {
		v.msg = fmt.Sprintf("Create failed on a valid set: %v", o.CreateErr)
		return v
	}
	if o.VerifyPan != "" {
		v.msg = "Verify panicked: " + o.VerifyPan
		return v
	}
	if o.VerifyErr != nil {
		v.msg = fmt.Sprintf("Verify returned an error for a set with intact index and volumes: %v", o.VerifyErr)
		return v
	}
	fc := o.VerifyRes.FileCounts
	nUnus := len(o.Unusable)
	if fc.UnusableDataFileCount != nUnus || fc.UsableDataFileCount != len(c.Files)-nUnus {
		v.msg = fmt.Sprintf("Verify counts usable/unusable data files %d/%d, truth %d/%d", fc.UsableDataFileCount, fc.UnusableDataFileCount, len(c.Files)-nUnus, nUnus)
		return v
	}
	if fc.UsableParityFileCount != len(o.Vols) {
		v.msg = fmt.Sprintf("Verify counts %d usable parity volumes, %d are present and intact", fc.UsableParityFileCount, len(o.Vols))
		return v
	}
	if fc.RepairNeeded() != (nUnus > 0) || fc.RepairPossible() != (nUnus <= len(o.Vols)) {
		v.msg = fmt.Sprintf("RepairNeeded/Possible = %v/%v with %d unusable files and %d volumes", fc.RepairNeeded(), fc.RepairPossible(), nUnus, len(o.Vols))
		return v
	}
	untouched := nUnus == 0 && len(o.Vols) == c.NVol
	if untouched && c.VerifyAll && !o.VerifyRes.AllDataOk {
		v.msg = "untouched set does not verify clean with the full parity check (AllDataOk=false)"
		return v
	}
	if len(o.VerifyDiff) > 0 {
		v.msg = "Verify modified the directory: " + fmt.Sprint(o.VerifyDiff)
		return v
	}
	v.expect = o.Predict1()
	noVolKey := ""
	if len(o.Vols) == 0 {
		noVolKey = "D10-par1-no-volume-negative-padding"
	}
	if o.RepairPan != "" {
		v.msg = "Repair panicked: " + firstLines(o.RepairPan)
		v.key = noVolKey
		return v
	}
	allOK, why := o.AllOriginal(o.Final)
	if o.RepairErr == nil && !allOK {
		v.msg = "Repair returned nil but " + why
		return v
	}
	switch v.expect {
	case "ok", "nothing":
		if o.RepairErr != nil {
			v.msg = fmt.Sprintf("Repair failed (%v) with %d unusable files and volumes %v (non-singular by reference)", o.RepairErr, nUnus, o.Vols)
			v.key = noVolKey
		}
	case "notenough", "singular":
		if o.RepairErr == nil {
			v.msg = fmt.Sprintf("Repair returned nil although the outcome must be %s", v.expect)
		}
	}
	v.nontriv = (v.expect == "ok" && nUnus >= 1) || v.expect == "singular"
	return v
}

func firstLines(s string) string {
	l := strings.SplitN(s, "\n", 8)
	if len(l) > 7 {
		l = l[:7]
	}
	return strings.Join(l, "\n")
}

var ops1 = []string{"delete", "delete", "flip", "truncate", "overwrite", "append", "copy", "swap"}

func gen(t *rapid.T, maxFiles, maxVol int) scen.Case1 {
	c := scen.Case1{}
	c.Files = scen.GenFiles1(t, maxFiles, 40000)
	mv := maxVol
	if len(c.Files)+mv > 256 {
		mv = 256 - len(c.Files)
	}
	c.NVol = rapid.OneOf(rapid.IntRange(1, 6), rapid.IntRange(1, mv)).Draw(t, "nvol")
	if c.NVol > mv {
		c.NVol = mv
	}
	nd := rapid.IntRange(0, min(len(c.Files), 5)).Draw(t, "ndamage")
	for i := 0; i < nd; i++ {
		c.Damage = append(c.Damage, scen.GenDamage(t, len(c.Files), scen.MaxLen(c.Files), 64, ops1))
	}
	if rapid.Bool().Draw(t, "delvols") {
		c.DelVols = rapid.SliceOfDistinct(rapid.IntRange(1, c.NVol), rapid.ID[int]).Draw(t, "dv")
	}
	c.VerifyAll = rapid.Bool().Draw(t, "va")
	c.DoubleCheck = rapid.Bool().Draw(t, "dc")
	c.Bystanders = rapid.Bool().Draw(t, "by")
	c.DirName = rapid.SampledFrom(scen.DirNames).Draw(t, "dirname")
	c.Base = rapid.SampledFrom(scen.Bases1).Draw(t, "base")
	return c
}

func TestCheck(t *testing.T) {
	cfg := run.Load("C04")
	rec := run.NewRec(cfg)
	defer rec.Finish(t)

	do := func(c scen.Case1) bool {
		rec.Eval()
		v := check(c)
		rec.Class("expect=" + v.expect)
		for _, f := range c.Files {
			if f.Size == 0 {
				rec.Class("has-empty-file")
				break
			}
		}
		for _, f := range c.Files {
			if f.Size > 16384 {
				rec.Class("file>16KiB")
				break
			}
		}
		for _, f := range c.Files {
			if f.Name[0] > 127 || strings.ContainsAny(f.Name, "😀𝔘日") {
				rec.Class("unicode-name")
				break
			}
		}
		if len(c.DelVols) > 0 {
			rec.Class("volumes-deleted")
		}
		if c.NVol > 20 {
			rec.Class("nvol>20")
		}
		if len(c.Files) > 12 {
			rec.Class("files>12")
		}
		if v.msg != "" {
			return rec.Fail("par1", c, v.key, v.msg) == ""
		}
		if v.nontriv {
			rec.NonTrivial(c)
		}
		return true
	}
	if cfg.Replay != "" {
		if rec.ReplayFuzzRapid(t, cfg.Replay, fuzzProps) {
			return
		}
		var c scen.Case1
		if _, err := run.LoadReplay(cfg.Replay, &c); err != nil {
			t.Fatal(err)
		}
		var k int
		if n, _ := fmt.Sscanf(c.Base, "foreign-owner scenario %d", &k); n == 1 {
			// a fixed scenario (no parameters beyond its number)
			rec.Eval()
			if msg, _ := foreignOwnerCase(k); msg != "" {
				rec.Fail("foreign", c, "", msg)
			}
			return
		}
		do(c)
		return
	}
	for _, f := range cfg.RegressFiles() {
		var c scen.Case1
		if _, err := run.LoadReplay(f, &c); err == nil && cfg.Shard == 0 {
			do(c)
		}
	}

	// exhaustive over subsets of deleted/corrupted data files and deleted volumes for small sets
	idx := 0
	for nf := 1; nf <= cfg.N(3, 4); nf++ {
		for nv := 1; nv <= 3; nv++ {
			files := []scen.FileSpec{}
			for i := 0; i < nf; i++ {
				files = append(files, scen.FileSpec{Name: fmt.Sprintf("f%d.bin", i), Size: []int{5, 0, 17, 3}[i], Kind: "random", Seed: uint64(i + 1)})
			}
			if nf == 2 {
				files[1].Size = 9
			}
			// each file: intact / deleted / corrupted ; each volume: present / deleted
			pw := 1
			for i := 0; i < nf; i++ {
				pw *= 3
			}
			for fm := 0; fm < pw; fm++ {
				for vm := 0; vm < 1<<uint(nv); vm++ {
					idx++
					if !cfg.Mine(idx) {
						continue
					}
					c := scen.Case1{Files: files, NVol: nv, VerifyAll: idx%2 == 0, DoubleCheck: idx%3 == 0}
					x := fm
					for i := 0; i < nf; i++ {
						switch x % 3 {
						case 1:
							c.Damage = append(c.Damage, scen.Damage{Op: "delete", File: i})
						case 2:
							c.Damage = append(c.Damage, scen.Damage{Op: "append", File: i, Len: 1, Seed: 3})
						}
						x /= 3
					}
					for v := 0; v < nv; v++ {
						if vm&(1<<uint(v)) != 0 {
							c.DelVols = append(c.DelVols, v+1)
						}
					}
					do(c)
				}
			}
		}
	}
	rec.SetExtra("exhaustive_small_sets", "every {intact,deleted,corrupted}^files x {present,deleted}^volumes for <=3/4 files x <=3 volumes")

	// PAR1-singular combinations: files i,j with (i+1)^(v-1) == (j+1)^(v-1); volumes {1, v}
	{
		e := 85 // x^85 lies in the subgroup of order 3, so many columns coincide in volume 86
		var pairs [][2]int
		for a := 1; a <= 14 && len(pairs) < 6; a++ {
			for b := a + 1; b <= 14; b++ {
				if gf8.Pow(byte(a), e) == gf8.Pow(byte(b), e) {
					pairs = append(pairs, [2]int{a - 1, b - 1})
				}
			}
		}
		for pi, pr := range pairs {
			idx++
			if !cfg.Mine(idx) {
				continue
			}
			var files []scen.FileSpec
			for i := 0; i < 14; i++ {
				files = append(files, scen.FileSpec{Name: fmt.Sprintf("s%02d.bin", i), Size: 3 + i, Kind: "random", Seed: uint64(50 + i)})
			}
			c := scen.Case1{Files: files, NVol: e + 1, Damage: []scen.Damage{{Op: "delete", File: pr[0]}, {Op: "flip", File: pr[1], Off: 1}}, DoubleCheck: pi%2 == 0}
			for v := 2; v <= e; v++ {
				c.DelVols = append(c.DelVols, v)
			}
			rec.Class("singular-pair-constructed")
			do(c)
			// contrast: volume 2 also present -> rows {1,2} are used and are non-singular
			c2 := c
			c2.DelVols = c.DelVols[1:]
			do(c2)
		}
	}

	// sets at the PAR 1.0 limit: files + volumes == 256 exactly; the highest-numbered volume is the one that is needed
	for li, fv := range [][2]int{{200, 56}, {157, 99}, {255, 1}, {250, 6}} {
		idx++
		if !cfg.Mine(idx) {
			continue
		}
		var files []scen.FileSpec
		for i := 0; i < fv[0]; i++ {
			files = append(files, scen.FileSpec{Name: fmt.Sprintf("lim%03d.bin", i), Size: 1 + (i*7)%23, Kind: "random", Seed: uint64(1000*li + i)})
		}
		c := scen.Case1{Files: files, NVol: fv[1], Damage: []scen.Damage{{Op: "delete", File: fv[0] / 2}}, VerifyAll: li%2 == 0}
		for v := 1; v < fv[1]; v++ {
			c.DelVols = append(c.DelVols, v)
		}
		rec.Class("files+volumes==256")
		do(c)
	}
	// a readable set owned by another user, verified without privileges
	for k := 0; k < 2; k++ {
		if !cfg.Mine(64 + k) {
			continue
		}
		rec.Eval()
		if msg, ran := foreignOwnerCase(k); !ran {
			rec.Class("foreign-owner-case-skipped(no privileges to drop)")
		} else {
			rec.Class("verify-as-non-owner")
			if msg != "" {
				rec.Fail("foreign", scen.Case1{Base: fmt.Sprintf("foreign-owner scenario %d (fixed case)", k)}, "", msg)
			}
		}
	}
	// a file of more than a megabyte whose second half is all zero, lost and restored
	for k, sz := range []int{1<<20 + 102400, 2 << 20} {
		if !cfg.Mine(60+k) || (k > 0 && !cfg.Thorough()) {
			continue
		}
		rec.Class("file>=1MiB-with-zero-tail")
		do(scen.Case1{NVol: 1, DoubleCheck: k == 1, Files: []scen.FileSpec{{Name: "img.bin", Size: sz, Kind: "halfzero", Seed: uint64(80 + k)}, {Name: "b.bin", Size: 100, Kind: "random", Seed: 6}},
			Damage: []scen.Damage{{Op: "delete", File: 0}}})
	}
	cfg.SetRapid(cfg.N(500, 8000), 1)
	rapid.Check(t, func(rt *rapid.T) {
		if !do(gen(rt, 12, 10)) {
			rt.Fatalf("C04 failed")
		}
	})
	cfg.SetRapid(cfg.N(15, 300), 2)
	rapid.Check(t, func(rt *rapid.T) {
		if !do(gen(rt, cfg.N(40, 120), 99)) {
			rt.Fatalf("C04 failed")
		}
	})
}
