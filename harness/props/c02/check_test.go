// C02: Repair writes only exact originals; nothing else is ever modified.
package c02

import (
	"bytes"
	"fmt"
	"path/filepath"
	"regexp"
	"testing"

	"pgregory.net/rapid"
	"verifharness/ref/fsx"
	"verifharness/ref/run"
	"verifharness/ref/scen"
)

// Case wraps a PAR1 or a PAR2 scenario.
type Case struct {
	P2 *scen.Case  `json:"par2,omitempty"`
	P1 *scen.Case1 `json:"par1,omitempty"`
}

type info struct {
	wrote, untouchedDamaged, failed bool
}

// writeRule checks the Repair write set.
func writeRule(dir string, diff []fsx.Change, final fsx.Snap, originals map[string][]byte, repaired []string) (string, int) {
	listed := map[string]bool{}
	for _, p := range repaired {
		rel, err := filepath.Rel(dir, p)
		if err != nil {
			return fmt.Sprintf("RepairedPaths entry %q is not under the set directory", p), 0
		}
		listed[rel] = true
		orig, ok := originals[rel]
		if !ok {
			return fmt.Sprintf("RepairedPaths lists %q which is not a protected file", p), 0
		}
		if e, ok := final[rel]; !ok || !bytes.Equal(e.Data, orig) {
			return fmt.Sprintf("RepairedPaths lists %q but the file does not hold its protected content", rel), 0
		}
	}
	n := 0
	for _, ch := range diff {
		if final[ch.Path].IsDir && ch.Kind == "created" {
			return "Repair created directory " + ch.Path, 0
		}
		if ch.Kind == "deleted" || ch.Kind == "type" {
			return fmt.Sprintf("Repair %s %q", ch.Kind, ch.Path), 0
		}
		orig, ok := originals[ch.Path]
		if !ok {
			return fmt.Sprintf("Repair wrote %q (%s) which is not a protected file", ch.Path, ch.Kind), 0
		}
		if !bytes.Equal(final[ch.Path].Data, orig) {
			return fmt.Sprintf("Repair wrote %q with bytes that differ from the protected content", ch.Path), 0
		}
		if !listed[ch.Path] {
			return fmt.Sprintf("Repair wrote %q (%s) but does not list it in its result", ch.Path, ch.Kind), 0
		}
		n++
	}
	return "", n
}

var reOut2 = regexp.MustCompile(`^set(\.vol\d+\+\d+)?\.par2$`)

func check(c Case) (string, info) {
	var inf info
	if c.P2 != nil {
		o := scen.Run(*c.P2, false)
		defer o.Close()
		if o.CreatePan != "" || o.CreateErr != nil {
			return fmt.Sprintf("Create failed: %v %s", o.CreateErr, o.CreatePan), inf
		}
		for n := range o.Outputs {
			if !reOut2.MatchString(n) {
				return fmt.Sprintf("Create touched %q (only the index and recovery files may be written; inputs must not be modified)", n), inf
			}
		}
		if o.VerifyPan != "" || o.RepairPan != "" {
			return "panic: " + o.VerifyPan + o.RepairPan, inf
		}
		if len(o.VerifyDiff) > 0 {
			return "Verify modified the directory: " + fsx.Describe(o.VerifyDiff), inf
		}
		msg, n := writeRule(o.WorkDir(), o.RepairDiff, o.Final, o.Originals, o.RepairRes.RepairedPaths)
		if msg != "" {
			return msg, inf
		}
		inf.wrote = n > 0
		inf.failed = o.RepairErr != nil
		for name, orig := range o.Originals {
			if e, ok := o.Final[name]; !ok || !bytes.Equal(e.Data, orig) {
				inf.untouchedDamaged = true
			}
		}
		if c.P2.Bystanders || c.P2.ForeignVol {
			inf.untouchedDamaged = inf.untouchedDamaged || n > 0
		}
		return "", inf
	}
	o := scen.Run1(*c.P1, false)
	defer o.Close()
	if o.CreatePan != "" || o.CreateErr != nil {
		return fmt.Sprintf("Create failed: %v %s", o.CreateErr, o.CreatePan), inf
	}
	base1 := c.P1.Base
	if base1 == "" {
		base1 = "set"
	}
	re1 := regexp.MustCompile("^" + regexp.QuoteMeta(base1) + `\.(par|p\d\d)$`)
	for n := range o.Outputs {
		if !re1.MatchString(n) {
			return fmt.Sprintf("PAR1 Create touched %q", n), inf
		}
	}
	if o.VerifyPan != "" || o.RepairPan != "" {
		return "panic: " + o.VerifyPan + o.RepairPan, inf
	}
	if len(o.VerifyDiff) > 0 {
		return "PAR1 Verify modified the directory: " + fsx.Describe(o.VerifyDiff), inf
	}
	msg, n := writeRule(o.WorkDir(), o.RepairDiff, o.Final, o.Originals, o.RepairRes.RepairedPaths)
	if msg != "" {
		return "PAR1: " + msg, inf
	}
	inf.wrote = n > 0
	inf.failed = o.RepairErr != nil
	inf.untouchedDamaged = c.P1.Bystanders && n > 0
	for name, orig := range o.Originals {
		if e, ok := o.Final[name]; !ok || !bytes.Equal(e.Data, orig) {
			inf.untouchedDamaged = true
		}
	}
	return "", inf
}

func gen2(t *rapid.T) *scen.Case {
	S := scen.GenSlice(t)
	maxSlices := 80
	if S >= 1024 {
		maxSlices = 16
	}
	c := &scen.Case{Slice: S}
	c.Files = scen.GenFiles(t, S, 5, 30000, maxSlices)
	c.NRec = rapid.IntRange(1, 6).Draw(t, "nrec")
	c.GCreate = rapid.SampledFrom([]int{1, 3}).Draw(t, "gc")
	c.GRepair = rapid.SampledFrom([]int{1, 2, 8}).Draw(t, "gr")
	c.DoubleCheck = rapid.Bool().Draw(t, "dc")
	nd := rapid.IntRange(1, 6).Draw(t, "ndamage")
	for i := 0; i < nd; i++ {
		c.Damage = append(c.Damage, scen.GenDamage(t, len(c.Files), scen.MaxLen(c.Files), S, nil))
	}
	if rapid.IntRange(0, 3).Draw(t, "delvol") == 0 {
		c.DelVolumes = rapid.SliceOfN(rapid.IntRange(0, 7), 1, 3).Draw(t, "delvols")
	}
	c.DirName = rapid.SampledFrom(scen.DirNames).Draw(t, "dirname")
	c.Bystanders = rapid.IntRange(0, 3).Draw(t, "by") > 0
	c.ForeignVol = rapid.IntRange(0, 2).Draw(t, "foreign") == 0
	c.DupVol = rapid.IntRange(0, 3).Draw(t, "dup") == 0
	if rapid.IntRange(0, 4).Draw(t, "corrupt") == 0 {
		c.CorruptVol = rapid.IntRange(1, 4).Draw(t, "cv")
	}
	if rapid.IntRange(0, 5).Draw(t, "rmdir") == 0 {
		// the sub-directory of a protected file is gone: its rewrite fails after other files may have been written
		c.RmDirOf = rapid.IntRange(1, len(c.Files)).Draw(t, "rmdirof")
	}
	if rapid.IntRange(0, 5).Draw(t, "sibling") == 0 {
		// recovery files of a sibling set with the same set ID: Repair reconstructs foreign bytes and must refuse to write them
		c.SiblingVols = true
		c.CorruptVol = 0
		c.DelVolumes = nil
		if S > 2048 {
			c.Slice = 256
			S = 256
		}
		c.Files[0].Size = 16384 + rapid.IntRange(1, 12*S).Draw(t, "tail")
		c.Files[0].Kind = "random"
		c.DoubleCheck = rapid.IntRange(0, 3).Draw(t, "dc2") > 0
		c.NRec = rapid.IntRange(2, 8).Draw(t, "nrec2")
		c.Damage = []scen.Damage{{Op: "overwrite", File: 0, Off: 16384 + rapid.IntRange(0, c.Files[0].Size-16385).Draw(t, "off"), Len: rapid.IntRange(1, S).Draw(t, "len"), Seed: rapid.Uint64Range(0, 999).Draw(t, "ds")}}
	}
	return c
}

func gen1(t *rapid.T) *scen.Case1 {
	c := &scen.Case1{}
	c.Files = scen.GenFiles1(t, 8, 20000)
	c.NVol = rapid.IntRange(1, 5).Draw(t, "nvol")
	nd := rapid.IntRange(1, 5).Draw(t, "ndamage")
	for i := 0; i < nd; i++ {
		c.Damage = append(c.Damage, scen.GenDamage(t, len(c.Files), scen.MaxLen(c.Files), 64, []string{"delete", "flip", "truncate", "append", "swap", "copy", "overwrite"}))
	}
	if rapid.Bool().Draw(t, "delvols") {
		c.DelVols = rapid.SliceOfDistinct(rapid.IntRange(1, c.NVol), rapid.ID[int]).Draw(t, "dv")
	}
	c.DoubleCheck = rapid.Bool().Draw(t, "dc")
	c.Bystanders = rapid.IntRange(0, 3).Draw(t, "by") > 0
	c.DirName = rapid.SampledFrom(scen.DirNames).Draw(t, "dirname")
	c.Base = rapid.SampledFrom(scen.Bases1).Draw(t, "base")
	if rapid.IntRange(0, 4).Draw(t, "corrupt") == 0 {
		c.CorruptVol = rapid.IntRange(1, c.NVol).Draw(t, "cv")
	}
	return c
}

func TestCheck(t *testing.T) {
	cfg := run.Load("C02")
	rec := run.NewRec(cfg)
	defer rec.Finish(t)

	do := func(c Case) bool {
		rec.Eval()
		msg, inf := check(c)
		if c.P2 != nil {
			rec.Class("par2")
			if c.P2.ForeignVol {
				rec.Class("foreign-volume-present")
			}
			if c.P2.CorruptVol > 0 {
				rec.Class("corrupt-volume")
			}
			if c.P2.RmDirOf > 0 {
				rec.Class("sub-directory-removed")
			}
			if c.P2.SiblingVols {
				rec.Class("sibling-set-volumes(same set id)")
			}
		} else {
			rec.Class("par1")
			if c.P1.CorruptVol > 0 {
				rec.Class("corrupt-volume")
			}
		}
		if inf.failed {
			rec.Class("failed-repair")
			if inf.wrote {
				rec.Class("failed-repair-with-partial-writes")
			}
		}
		if msg != "" {
			return rec.Fail("writes", c, "", msg) == ""
		}
		if inf.wrote && inf.untouchedDamaged {
			rec.NonTrivial(c)
		}
		return true
	}
	if cfg.Replay != "" {
		if rec.ReplayFuzzRapid(t, cfg.Replay, fuzzProps) {
			return
		}
		var c Case
		if _, err := run.LoadReplay(cfg.Replay, &c); err != nil {
			t.Fatal(err)
		}
		var k int
		if c.P2 != nil {
			if n, _ := fmt.Sscanf(c.P2.Index, "symlinked data file scenario %d", &k); n == 1 {
				rec.Eval()
				if msg := symlinkDataCase(k); msg != "" {
					rec.Fail("symlink", c, "", msg)
				}
				return
			}
		}
		do(c)
		return
	}
	for _, f := range cfg.RegressFiles() {
		var c Case
		if _, err := run.LoadReplay(f, &c); err == nil && cfg.Shard == 0 {
			do(c)
		}
	}
	// a missing file in a sub-directory while an intact, different protected file with the same base name, length and first
	// 16 KiB sits beside the index (and the other way round); an unrelated bystander with that base name as well
	for k := 0; k < 4; k++ {
		if !cfg.Mine(300 + k) {
			continue
		}
		rec.Class("same-base-name-in-two-directories")
		files := []scen.FileSpec{{Name: "old/report.doc", Size: 20000 + 7*k, Kind: "share16k", Seed: 3}, {Name: "report.doc", Size: 20000 + 7*k, Kind: "share16k", Seed: 6}, {Name: "c.bin", Size: 100, Kind: "random", Seed: 9}}
		c := scen.Case{Files: files, Slice: 1000, NRec: 24, GCreate: 2, GRepair: 1 + k%2, DoubleCheck: k%2 == 0, Bystanders: k >= 2,
			Damage: []scen.Damage{{Op: "delete", File: k % 2}}}
		do(Case{P2: &c})
	}
	// a protected file that is a symbolic link to its damaged content
	for k := 0; k < 4; k++ {
		if cfg.Mine(320 + k) {
			rec.Eval()
			rec.Class("data-file-is-a-symbolic-link")
			if msg := symlinkDataCase(k); msg != "" {
				rec.Fail("symlink", Case{P2: &scen.Case{Index: fmt.Sprintf("symlinked data file scenario %d (fixed case)", k)}}, "", msg)
			}
		}
	}
	// a 2 MiB file whose second MiB is all zero is damaged and rewritten (exact multiples of 1 MiB / 64 KiB)
	if cfg.Mine(310) {
		rec.Class("file>=1MiB-with-zero-tail")
		c := scen.Case{Files: []scen.FileSpec{{Name: "img.bin", Size: 2 << 20, Kind: "halfzero", Seed: 90}, {Name: "c.bin", Size: 100, Kind: "random", Seed: 9}}, Slice: 65536, NRec: 2, GCreate: 4, GRepair: 2,
			Damage: []scen.Damage{{Op: "flip", File: 0, Off: 77}}}
		do(Case{P2: &c})
		c1 := scen.Case1{NVol: 1, Files: []scen.FileSpec{{Name: "img.bin", Size: 1<<20 + 65536, Kind: "halfzero", Seed: 91}, {Name: "c.bin", Size: 100, Kind: "random", Seed: 9}}, Damage: []scen.Damage{{Op: "flip", File: 0, Off: 77}}}
		do(Case{P1: &c1})
	}
	cfg.SetRapid(cfg.N(500, 7000), 1)
	rapid.Check(t, func(rt *rapid.T) {
		if !do(Case{P2: gen2(rt)}) {
			rt.Fatalf("C02 failed")
		}
	})
	cfg.SetRapid(cfg.N(400, 6000), 2)
	rapid.Check(t, func(rt *rapid.T) {
		if !do(Case{P1: gen1(rt)}) {
			rt.Fatalf("C02 failed")
		}
	})
}
