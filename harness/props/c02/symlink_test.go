package c02

import (
	"bytes"
	"fmt"
	"os"
	"path/filepath"

	"github.com/akalin/gopar/par1"
	"github.com/akalin/gopar/par2"
	"verifharness/ref/run"
	"verifharness/ref/scen"
)

// symlinkDataCase: a protected data file is a symbolic link to its (damaged) content kept elsewhere.  Repair rewrites the
// content through the link; it has to report success, list the file, and leave the exact original behind the link.
func symlinkDataCase(k int) string {
	root := run.Scratch("c02sl")
	defer os.RemoveAll(root)
	dir := filepath.Join(root, "w")
	store := filepath.Join(root, "store")
	os.MkdirAll(dir, 0o755)
	os.MkdirAll(store, 0o755)
	format := []string{"par2", "par1"}[k%2]
	a := (scen.FileSpec{Name: "a", Size: 300 + 17000*(k/2%2), Kind: "random", Seed: uint64(60 + k)}).Content(64)
	b := (scen.FileSpec{Name: "b", Size: 90, Kind: "random", Seed: uint64(70 + k)}).Content(64)
	pa, pb := filepath.Join(dir, "a.dat"), filepath.Join(dir, "b.dat")
	os.WriteFile(pa, a, 0o644)
	os.WriteFile(pb, b, 0o644)
	var idx string
	var err error
	if format == "par2" {
		idx = filepath.Join(dir, "set.par2")
		err = par2.Create(idx, []string{pa, pb}, par2.CreateOptions{SliceByteCount: 64, NumParityShards: 3, NumGoroutines: 1})
	} else {
		idx = filepath.Join(dir, "set.par")
		err = par1.Create(idx, []string{pa, pb}, par1.CreateOptions{NumParityFiles: 1})
	}
	if err != nil {
		return "harness: Create failed: " + err.Error()
	}
	// a.dat now lives in the store (with one byte changed) and is a symbolic link in the set's directory
	d := append([]byte{}, a...)
	d[len(d)/3] ^= 0x08
	target := filepath.Join(store, "a.real")
	os.WriteFile(target, d, 0o644)
	os.Remove(pa)
	if err := os.Symlink(target, pa); err != nil {
		return ""
	}
	var paths []string
	if format == "par2" {
		var r par2.RepairResult
		r, err = par2.Repair(idx, par2.RepairOptions{NumGoroutines: 1, DoubleCheck: k%3 == 0})
		paths = r.RepairedPaths
	} else {
		var r par1.RepairResult
		r, err = par1.Repair(idx, par1.RepairOptions{DoubleCheck: k%3 == 0})
		paths = r.RepairedPaths
	}
	got, _ := os.ReadFile(target)
	wrote := !bytes.Equal(got, d)
	listed := false
	for _, p := range paths {
		if filepath.Base(p) == "a.dat" {
			listed = true
		}
	}
	if wrote && !bytes.Equal(got, a) {
		return fmt.Sprintf("%s: Repair wrote through the symbolic link a.dat but the content is not the protected original", format)
	}
	if wrote && !listed {
		return fmt.Sprintf("%s: Repair rewrote a.dat (a symbolic link to its content) exactly but does not list it: RepairedPaths=%v err=%v", format, paths, err)
	}
	if err == nil && !bytes.Equal(got, a) {
		return fmt.Sprintf("%s: Repair returned nil but a.dat (a symbolic link to its content) is not restored", format)
	}
	if err != nil && wrote {
		return fmt.Sprintf("%s: Repair restored a.dat through the symbolic link and then failed: %v", format, err)
	}
	if fi, lerr := os.Lstat(pa); lerr != nil || fi.Mode()&os.ModeSymlink == 0 {
		if !bytes.Equal(mustRead(pa), a) {
			return fmt.Sprintf("%s: a.dat is neither the link it was nor the original content", format)
		}
	}
	return ""
}

func mustRead(p string) []byte {
	b, _ := os.ReadFile(p)
	return b
}
