package c02

import (
	"testing"

	"pgregory.net/rapid"
	"verifharness/ref/run"
)

// Coverage-guided stage: the PAR2 and PAR1 scenario generators of TestCheck driven by the fuzzing engine's bytes.
func writesProp(rt *rapid.T) run.RapidVerdict {
	var c Case
	if rapid.IntRange(0, 2).Draw(rt, "format") > 0 {
		c = Case{P2: gen2(rt)}
	} else {
		c = Case{P1: gen1(rt)}
	}
	msg, inf := check(c)
	cl := "par2"
	if c.P1 != nil {
		cl = "par1"
	}
	return run.RapidVerdict{Case: c, Kind: "writes", Msg: msg, Class: cl, NonTrivial: inf.wrote && inf.untouchedDamaged}
}

var fuzzProps = map[string]func(*rapid.T) run.RapidVerdict{"FuzzWrites": writesProp}

func FuzzWrites(f *testing.F) { run.FuzzRapid(f, "C02", writesProp) }
