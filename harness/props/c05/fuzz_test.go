package c05

import (
	"testing"

	"pgregory.net/rapid"
	"verifharness/ref/run"
)

// Coverage-guided stage: the Create-case generator of TestCheck (small sets) driven by the fuzzing engine's bytes.
func createProp(rt *rapid.T) run.RapidVerdict {
	c := gen(rt, false)
	msg := check(c)
	return run.RapidVerdict{Case: c, Kind: "create", Msg: msg, Class: "create", NonTrivial: len(c.Files) >= 2}
}

var fuzzProps = map[string]func(*rapid.T) run.RapidVerdict{"FuzzCreate": createProp}

func FuzzCreate(f *testing.F) { run.FuzzRapid(f, "C05", createProp) }
