package c05

import (
	"crypto/md5"
	"fmt"
	"io"
	"os"
	"path/filepath"

	"github.com/akalin/gopar/par2"
	"verifharness/ref/par2ref"
	"verifharness/ref/run"
)

// bigCreateCase (thorough tier): an input file of 4 GiB + 4 KiB (lengths that do not fit into 32 bits; legal from a slice
// size of 128 KiB on).  The file is sparse; Create reads it through the real filesystem.  Checked with the reference reader:
// the file description's length, hashes and file ID, and the number of checksum pairs.
func bigCreateCase() string {
	root := run.Scratch("c05big")
	defer os.RemoveAll(root)
	const size = 1<<32 + 4096
	const slice = 1 << 20
	p := filepath.Join(root, "huge.img")
	f, err := os.Create(p)
	if err != nil {
		return ""
	}
	f.WriteAt([]byte("start of a very large file"), 0)
	f.WriteAt([]byte("just below four gibibytes"), 1<<32-100)
	f.WriteAt([]byte("the end"), size-7)
	if err := f.Truncate(size); err != nil {
		f.Close()
		return "" // no room for the scratch file: skipped silently (thorough tier only)
	}
	f.Close()
	idx := filepath.Join(root, "set.par2")
	if err := par2.Create(idx, []string{p}, par2.CreateOptions{SliceByteCount: slice, NumParityShards: 1, NumGoroutines: 8}); err != nil {
		return "Create failed on a file of 4 GiB + 4 KiB: " + err.Error()
	}
	raw, err := os.ReadFile(idx)
	if err != nil {
		return "index not written: " + err.Error()
	}
	ps, err := par2ref.ScanStrict(raw)
	if err != nil {
		return "index is not a valid packet stream: " + err.Error()
	}
	h := md5.New()
	in, _ := os.Open(p)
	first := make([]byte, 16384)
	io.ReadFull(in, first)
	h.Write(first)
	io.Copy(h, in)
	in.Close()
	var full [16]byte
	copy(full[:], h.Sum(nil))
	seenDesc, seenIFSC := false, false
	for _, q := range ps {
		switch q.Type {
		case par2ref.TypeFileDesc:
			d, err := par2ref.ParseFileDesc(q.Body)
			if err != nil {
				return "file description: " + err.Error()
			}
			seenDesc = true
			if d.Length != size {
				return fmt.Sprintf("file description of a %d-byte file declares length %d", uint64(size), d.Length)
			}
			if d.MD516k != md5.Sum(first) || d.MD5 != full {
				return "file description of the 4 GiB + 4 KiB file carries wrong hashes"
			}
			if d.ID != par2ref.FileID(d.MD516k, d.Length, []byte(d.Name)) {
				return "file ID of the 4 GiB + 4 KiB file is not MD5(16k hash, length, name) of its own description"
			}
		case par2ref.TypeIFSC:
			_, pairs, err := par2ref.ParseIFSC(q.Body)
			if err != nil {
				return "checksum packet: " + err.Error()
			}
			seenIFSC = true
			if want := (size + slice - 1) / slice; len(pairs) != want {
				return fmt.Sprintf("checksum packet of the 4 GiB + 4 KiB file has %d pairs, want %d", len(pairs), want)
			}
		}
	}
	if !seenDesc || !seenIFSC {
		return "index of the 4 GiB + 4 KiB set lacks the file description or checksum packet"
	}
	return ""
}
