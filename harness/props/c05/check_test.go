// C05: created PAR2 sets are valid PAR2 and carry the specified Reed-Solomon data.
package c05

import (
	"bytes"
	"crypto/md5"
	"fmt"
	"hash/crc32"
	"os"
	"path/filepath"
	"regexp"
	"sort"
	"strconv"
	"testing"

	"github.com/akalin/gopar/par2"
	"pgregory.net/rapid"
	"verifharness/ref/fsx"
	"verifharness/ref/par2ref"
	"verifharness/ref/run"
	"verifharness/ref/scen"
)

// Case is a Create scenario.
type Case struct {
	Files []scen.FileSpec `json:"files"`
	Slice int             `json:"slice"`
	NRec  int             `json:"nrec"`
	G     int             `json:"g"`
	Link  bool            `json:"link,omitempty"` // the first input is a symlink to a file elsewhere in the tree, the last lies below a symlinked directory
	Pre   bool            `json:"pre,omitempty"` // the set is first created with a smaller slice size and more blocks in the same directory (longer files with the same names)
}

var reVol = regexp.MustCompile(`^set\.vol(\d+)\+(\d+)\.par2$`)

func check(c Case) string {
	root := run.Scratch("c05")
	defer os.RemoveAll(root)
	dir := filepath.Join(root, "w")
	orig := map[string][]byte{}
	var paths []string
	for _, f := range c.Files {
		orig[f.Name] = f.Content(c.Slice)
		paths = append(paths, filepath.Join(dir, f.Name))
	}
	fsx.WriteTree(dir, orig)
	if c.Link && len(c.Files) >= 1 {
		// replace the first input by a symlink to a copy stored under another name inside the tree
		n := c.Files[0].Name
		os.MkdirAll(filepath.Join(dir, "zreal"), 0o755)
		os.WriteFile(filepath.Join(dir, "zreal", "target.bin"), orig[n], 0o644)
		os.Remove(filepath.Join(dir, n))
		os.Symlink(filepath.Join(dir, "zreal", "target.bin"), filepath.Join(dir, n))
	}
	if c.Pre {
		ps := c.Slice / 2
		if ps%4 != 0 || ps == 0 {
			ps = 4
		}
		run.Safe(func() {
			par2.Create(filepath.Join(dir, "set.par2"), paths, par2.CreateOptions{SliceByteCount: ps, NumParityShards: c.NRec + 3, NumGoroutines: 1})
		})
	}
	before, _ := fsx.Take(dir)
	var err error
	if p, msg := run.Safe(func() {
		err = par2.Create(filepath.Join(dir, "set.par2"), paths, par2.CreateOptions{SliceByteCount: c.Slice, NumParityShards: c.NRec, NumGoroutines: c.G})
	}); p {
		return "Create panicked: " + msg
	}
	if err != nil {
		return fmt.Sprintf("Create failed on a valid input: %v", err)
	}
	after, _ := fsx.Take(dir)
	written := map[string][]byte{}
	for _, ch := range fsx.Diff(before, after) {
		if ch.Kind != "created" && !(c.Pre && (ch.Kind == "content" || ch.Kind == "mtime") && (reVol.MatchString(ch.Path) || ch.Path == "set.par2")) {
			return fmt.Sprintf("Create %s %q", ch.Kind, ch.Path)
		}
		written[ch.Path] = after[ch.Path].Data
	}
	if c.Pre {
		// files of the new set whose bytes happen to equal the old ones do not show up in the diff
		written["set.par2"] = after["set.par2"].Data
	}
	if _, ok := written["set.par2"]; !ok {
		return "Create did not write the index file"
	}
	S := c.Slice
	// expected logical set from the inputs, computed independently
	type exp struct {
		id, md5, md516k [16]byte
		data            []byte
	}
	want := map[string]exp{}
	for n, d := range orig {
		var e exp
		e.data = d
		e.md5 = md5.Sum(d)
		if len(d) < 16384 {
			e.md516k = e.md5
		} else {
			e.md516k = md5.Sum(d[:16384])
		}
		e.id = par2ref.FileID(e.md516k, uint64(len(d)), []byte(n))
		want[n] = e
	}
	var order []string
	for n := range want {
		order = append(order, n)
	}
	sort.Slice(order, func(i, j int) bool { return par2ref.IDLess(want[order[i]].id, want[order[j]].id) })
	var slices [][]byte
	for _, n := range order {
		for o := 0; o < len(want[n].data); o += S {
			slices = append(slices, par2ref.PadSlice(want[n].data, o, S))
		}
	}
	var mainBody []byte
	seenExp := map[int]string{}
	for name, data := range written {
		isIndex := name == "set.par2"
		var volFirst, volCount int
		if !isIndex {
			m := reVol.FindStringSubmatch(name)
			if m == nil {
				return fmt.Sprintf("Create wrote a file with an unexpected name %q", name)
			}
			volFirst, _ = strconv.Atoi(m[1])
			volCount, _ = strconv.Atoi(m[2])
		}
		pkts, err := par2ref.ScanStrict(data)
		if err != nil {
			return fmt.Sprintf("%s is not a well-formed packet stream: %v", name, err)
		}
		var mains, creators int
		descs := map[[16]byte]int{}
		ifscs := map[[16]byte]int{}
		var setID [16]byte
		fileExps := []int{}
		for _, p := range pkts {
			switch p.Type {
			case par2ref.TypeMain:
				mains++
				if mainBody == nil {
					mainBody = p.Body
				} else if !bytes.Equal(mainBody, p.Body) {
					return name + ": main packet differs between files of the set"
				}
				setID = md5.Sum(p.Body)
			}
		}
		if mains == 0 {
			return name + ": no main packet"
		}
		mp, err := par2ref.ParseMain(mainBody)
		if err != nil {
			return name + ": " + err.Error()
		}
		if mp.SliceSize != uint64(S) {
			return fmt.Sprintf("%s: main packet slice size %d, want %d", name, mp.SliceSize, S)
		}
		if int(mp.NRecovery) != len(order) || len(mp.IDs) != len(order) {
			return fmt.Sprintf("%s: main packet lists %d recovery / %d total files, want %d / %d", name, mp.NRecovery, len(mp.IDs), len(order), len(order))
		}
		for i, id := range mp.IDs {
			if id != want[order[i]].id {
				return fmt.Sprintf("%s: main packet file ID %d is not the ID of %q in ascending little-endian order", name, i, order[i])
			}
			if i > 0 && !par2ref.IDLess(mp.IDs[i-1], id) {
				return name + ": main packet file IDs not strictly ascending"
			}
		}
		for _, p := range pkts {
			if p.SetID != setID {
				return fmt.Sprintf("%s: packet at offset %d has a recovery set ID that is not MD5(main packet body)", name, p.Offset)
			}
			switch p.Type {
			case par2ref.TypeMain:
			case par2ref.TypeCreator:
				creators++
				if len(p.Body) == 0 || len(p.Body)%4 != 0 {
					return name + ": creator packet body empty or not padded"
				}
				for _, b := range p.Body {
					if b > 127 {
						return name + ": creator packet not ASCII"
					}
				}
			case par2ref.TypeFileDesc:
				d, err := par2ref.ParseFileDesc(p.Body)
				if err != nil {
					return name + ": " + err.Error()
				}
				w, ok := want[d.Name]
				if !ok {
					return fmt.Sprintf("%s: file description for unknown name %q (names must be the paths relative to the index file, '/'-separated)", name, d.Name)
				}
				if d.ID != w.id {
					return fmt.Sprintf("%s: file ID of %q is not MD5(16k-hash || length || name)", name, d.Name)
				}
				if d.MD5 != w.md5 || d.MD516k != w.md516k || d.Length != uint64(len(w.data)) {
					return fmt.Sprintf("%s: hashes/length of %q do not match the input file", name, d.Name)
				}
				if len(d.NameRaw)%4 != 0 || len(d.NameRaw)-len(d.Name) >= 4 {
					return fmt.Sprintf("%s: name field of %q not NUL padded to a multiple of 4 (raw %d bytes, name %d)", name, d.Name, len(d.NameRaw), len(d.Name))
				}
				for _, b := range d.NameRaw[len(d.Name):] {
					if b != 0 {
						return name + ": name padding not NUL"
					}
				}
				descs[d.ID]++
			case par2ref.TypeIFSC:
				id, pairs, err := par2ref.ParseIFSC(p.Body)
				if err != nil {
					return name + ": " + err.Error()
				}
				var fn string
				for n, w := range want {
					if w.id == id {
						fn = n
					}
				}
				if fn == "" {
					return name + ": IFSC packet for an unknown file ID"
				}
				d := want[fn].data
				if len(pairs) != (len(d)+S-1)/S {
					return fmt.Sprintf("%s: IFSC of %q has %d pairs, want %d", name, fn, len(pairs), (len(d)+S-1)/S)
				}
				for k, pr := range pairs {
					sl := par2ref.PadSlice(d, k*S, S)
					if pr.MD5 != md5.Sum(sl) || pr.CRC != crc32.ChecksumIEEE(sl) {
						return fmt.Sprintf("%s: checksum pair %d of %q is not MD5/CRC32 of the zero-padded slice", name, k, fn)
					}
				}
				ifscs[id]++
			case par2ref.TypeRecvSlic:
				if isIndex {
					return "index file contains a recovery packet"
				}
				e, blk, err := par2ref.ParseRecovery(p.Body)
				if err != nil {
					return name + ": " + err.Error()
				}
				if len(blk) != S {
					return fmt.Sprintf("%s: recovery block %d has %d bytes, slice size is %d", name, e, len(blk), S)
				}
				if prev, dup := seenExp[int(e)]; dup {
					return fmt.Sprintf("recovery block %d stored twice (%s and %s)", e, prev, name)
				}
				seenExp[int(e)] = name
				fileExps = append(fileExps, int(e))
				if !bytes.Equal(blk, par2ref.RecoveryBlock(slices, S, int(e))) {
					return fmt.Sprintf("%s: recovery block %d differs from sum_i slice_i*c_i^%d computed in the reference field", name, e, e)
				}
			default:
				return fmt.Sprintf("%s: packet of unknown type %q", name, p.Type[:])
			}
		}
		if creators == 0 {
			return name + ": no creator packet"
		}
		for _, n := range order {
			if descs[want[n].id] != 1 || ifscs[want[n].id] != 1 {
				return fmt.Sprintf("%s: %d file description and %d IFSC packets for %q, want exactly one each", name, descs[want[n].id], ifscs[want[n].id], n)
			}
		}
		if !isIndex {
			sort.Ints(fileExps)
			if len(fileExps) != volCount {
				return fmt.Sprintf("%s holds %d recovery blocks, its name says %d", name, len(fileExps), volCount)
			}
			for i, e := range fileExps {
				if e != volFirst+i {
					return fmt.Sprintf("%s holds exponents %v, its name says %d..%d", name, fileExps, volFirst, volFirst+volCount-1)
				}
			}
		}
	}
	if len(seenExp) != c.NRec {
		return fmt.Sprintf("recovery files contain %d distinct blocks, want %d", len(seenExp), c.NRec)
	}
	for e := 0; e < c.NRec; e++ {
		if _, ok := seenExp[e]; !ok {
			return fmt.Sprintf("recovery block %d is missing from the recovery files", e)
		}
	}
	return ""
}

func gen(t *rapid.T, big bool) Case {
	S := scen.GenSlice(t)
	c := Case{Slice: S}
	if big {
		c.Slice = 4
		n := rapid.IntRange(8000, 32768).Draw(t, "nslices")
		c.Files = []scen.FileSpec{{Name: "big/one.bin", Size: 4*n - rapid.IntRange(0, 3).Draw(t, "rem"), Kind: "random", Seed: rapid.Uint64Range(0, 999).Draw(t, "seed")}}
		c.NRec = rapid.IntRange(1, 3).Draw(t, "nrec")
		c.G = rapid.IntRange(1, 8).Draw(t, "g")
		return c
	}
	maxSlices := 60
	if S >= 1024 {
		maxSlices = 12
	}
	c.Files = scen.GenFiles(t, S, 6, 40000, maxSlices)
	total := scen.TotalSlices(c.Files, S)
	budget := 3_000_000 / (total*S + 1)
	if budget < 2 {
		budget = 2
	}
	if budget > 300 {
		budget = 300
	}
	c.NRec = rapid.OneOf(rapid.IntRange(1, min(budget, 12)), rapid.IntRange(1, budget)).Draw(t, "nrec")
	c.G = rapid.SampledFrom([]int{1, 2, 3, 4, 8, 64}).Draw(t, "g")
	c.Pre = rapid.IntRange(0, 4).Draw(t, "pre") == 0
	c.Link = rapid.IntRange(0, 5).Draw(t, "link") == 0
	return c
}

func TestCheck(t *testing.T) {
	cfg := run.Load("C05")
	rec := run.NewRec(cfg)
	defer rec.Finish(t)
	do := func(c Case) bool {
		rec.Eval()
		total := scen.TotalSlices(c.Files, c.Slice)
		if c.NRec >= 100 {
			rec.Class("blocks>=100")
		}
		if c.Pre {
			rec.Class("re-created-over-longer-files")
		}
		if c.Link {
			rec.Class("symlinked-input")
		}
		if c.NRec >= 8 {
			rec.Class("volume-files>=4")
		}
		if total > 4096 {
			rec.Class("slices>4096")
		}
		for _, f := range c.Files {
			if f.Size >= 16384 {
				rec.Class("file>=16KiB")
				break
			}
		}
		if msg := check(c); msg != "" {
			return rec.Fail("create", c, "", msg) == ""
		}
		if (len(c.Files) >= 2 || total >= 2) && c.NRec >= 2 {
			rec.NonTrivial(c)
		}
		return true
	}
	if cfg.Replay != "" {
		if rec.ReplayFuzzRapid(t, cfg.Replay, fuzzProps) {
			return
		}
		var c Case
		if _, err := run.LoadReplay(cfg.Replay, &c); err != nil {
			t.Fatal(err)
		}
		if c.Slice == -1 {
			rec.Eval()
			if msg := bigCreateCase(); msg != "" {
				rec.Fail("bigfile", c, "", msg)
			}
			return
		}
		do(c)
		return
	}
	for _, f := range cfg.RegressFiles() {
		var c Case
		if _, err := run.LoadReplay(f, &c); err == nil && cfg.Shard == 0 {
			do(c)
		}
	}
	if cfg.Thorough() && cfg.Shard == 7%cfg.NShards {
		rec.Eval()
		rec.Class("file>4GiB")
		if msg := bigCreateCase(); msg != "" {
			rec.Fail("bigfile", Case{Slice: -1}, "", msg)
		}
	}
	// files whose IDs agree in their most significant 32 bits: the ID order in the main packet (and with it the constants
	// of the slices) is decided by the lower bytes
	for k := 0; k < 6; k++ {
		if !cfg.Mine(900 + k) {
			continue
		}
		tw := scen.IDTwinFiles(9+k, uint64(20+k), 3)
		if len(tw) < 2 {
			continue
		}
		rec.Class("file-ids-agreeing-in-32-bits")
		do(Case{Slice: 4, NRec: 2, G: 1 + k%3, Files: append(tw, scen.FileSpec{Name: "other.bin", Size: 13, Kind: "random", Seed: 99})})
	}
	cfg.SetRapid(cfg.N(1500, 8000), 1)
	rapid.Check(t, func(rt *rapid.T) {
		if !do(gen(rt, false)) {
			rt.Fatalf("C05 failed")
		}
	})
	cfg.SetRapid(cfg.N(1, 8), 2)
	rapid.Check(t, func(rt *rapid.T) {
		if !do(gen(rt, true)) {
			rt.Fatalf("C05 failed")
		}
	})
}
