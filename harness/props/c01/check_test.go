// C01: PAR2 repair restores every protected file exactly, within recovery capacity.
package c01

import (
	"fmt"
	"testing"

	"github.com/akalin/gopar/rsec16"
	"pgregory.net/rapid"
	"verifharness/ref/gf16"
	"verifharness/ref/model"
	"verifharness/ref/run"
	"verifharness/ref/scen"
)

type verdict struct {
	msg      string
	key      string
	exact    bool
	unusable int
	expect   string // ok | singular | notenough | ambiguous
	nontriv  bool
}

func check(c scen.Case) verdict {
	var v verdict
	total := scen.TotalSlices(c.Files, c.Slice)
	o := scen.Run(c, false)
	defer o.Close()
	if o.CreatePan != "" {
		v.msg = "Create panicked: " + o.CreatePan
		return v
	}
	if total > 32768 {
		v.expect = "refused"
		if o.CreateErr == nil {
			v.msg = fmt.Sprintf("Create accepted %d slices (limit 32768)", total)
		}
		return v
	}
	if o.CreateErr != nil {
		v.msg = fmt.Sprintf("Create failed on a valid input set: %v", o.CreateErr)
		return v
	}
	if o.VerifyPan != "" {
		v.msg = "Verify panicked: " + o.VerifyPan
		return v
	}
	if o.RepairPan != "" {
		v.msg = "Repair panicked: " + o.RepairPan
		return v
	}
	loc := o.Loc
	v.exact = !loc.Ambiguous
	missMay := model.Missing(loc.May)
	missMust := model.Missing(loc.Must)
	v.unusable = len(missMay)
	allOK, why := o.AllOriginal(o.Final)
	// never as success
	if o.RepairErr == nil && !allOK {
		v.msg = "Repair returned nil but " + why
		// signature of D15b does not apply here
		return v
	}
	_, notEnoughErr := o.RepairErr.(rsec16.NotEnoughParityShardsError)
	nexp := len(distinct(o.SurvExps))
	if v.exact {
		enough, nonsing := model.Solvable(missMay, o.SurvExps)
		switch {
		case !enough:
			v.expect = "notenough"
			if o.RepairErr == nil {
				v.msg = fmt.Sprintf("Repair succeeded although %d slices are unusable and only %d recovery blocks survive", len(missMay), nexp)
			}
		case !nonsing:
			v.expect = "singular"
			if o.RepairErr == nil {
				v.msg = "Repair returned nil for a combination that is singular by the reference"
			}
		default:
			v.expect = "ok"
			if o.RepairErr != nil {
				v.msg = fmt.Sprintf("Repair failed (%v) although %d slices are unusable, %d recovery blocks survive (exponents %v) and the system is non-singular", o.RepairErr, len(missMay), nexp, short(o.SurvExps))
				if nexp == 0 && len(missMay) == 0 {
					v.key = "D15-no-recovery-blocks-generic-error"
				}
			} else if !allOK {
				v.msg = "Repair returned nil but " + why
			}
		}
	} else {
		v.expect = "ambiguous"
		if len(missMay) > nexp && o.RepairErr == nil {
			v.msg = fmt.Sprintf("Repair succeeded although at least %d slices are unusable and only %d recovery blocks survive", len(missMay), nexp)
		}
		if len(missMust) <= nexp && notEnoughErr {
			v.msg = fmt.Sprintf("Repair reported not-enough-parity although at most %d slices can be unusable and %d recovery blocks survive", len(missMust), nexp)
		}
	}
	if v.msg != "" {
		return v
	}
	other := false
	for _, d := range c.Damage {
		if d.Op != "delete" {
			other = true
		}
	}
	v.nontriv = v.exact && v.expect == "ok" && v.unusable >= 1 && other
	return v
}

func distinct(a []int) []int {
	m := map[int]bool{}
	var out []int
	for _, x := range a {
		if !m[x] {
			m[x] = true
			out = append(out, x)
		}
	}
	return out
}

func short(a []int) []int {
	if len(a) > 12 {
		return a[:12]
	}
	return a
}

var gchoices = []int{1, 1, 2, 3, 4, 8, 64, 500, 0}

func gen(t *rapid.T, big int) scen.Case {
	S := scen.GenSlice(t)
	maxSlices := 120
	maxBytes := 49152
	switch big {
	case 1: // > 256 slices
		S = rapid.SampledFrom([]int{4, 8, 16}).Draw(t, "sbig")
		maxSlices = 1500
	case 2: // thousands
		S = rapid.SampledFrom([]int{4, 8}).Draw(t, "sbig")
		maxSlices = 9000
	}
	if S >= 1024 {
		maxSlices = 24
	}
	c := scen.Case{Slice: S}
	c.Files = scen.GenFiles(t, S, 6, maxBytes, maxSlices)
	if big > 0 {
		// make sure the set is really large
		c.Files[0].Size = S*rapid.IntRange(257, maxSlices/2).Draw(t, "bigslices") + rapid.IntRange(0, S-1).Draw(t, "rem")
	}
	c.NRec = rapid.OneOf(rapid.IntRange(1, 12), rapid.IntRange(1, 4)).Draw(t, "nrec")
	if big == 0 && scen.TotalSlices(c.Files, S)*S <= 8000 && rapid.IntRange(0, 11).Draw(t, "manyblocks") == 0 {
		// many recovery blocks spread over several volume files
		c.NRec = rapid.IntRange(13, 300).Draw(t, "nrecbig")
	}
	c.DirName = rapid.SampledFrom(scen.DirNames).Draw(t, "dirname")
	c.Index = rapid.SampledFrom(scen.IndexNames).Draw(t, "index")
	c.GCreate = rapid.SampledFrom(gchoices).Draw(t, "gc")
	c.GRepair = rapid.SampledFrom(gchoices).Draw(t, "gr")
	c.Procs = rapid.SampledFrom([]int{0, 0, 0, 1, 2, 5}).Draw(t, "procs")
	c.DoubleCheck = rapid.Bool().Draw(t, "dc")
	nd := rapid.IntRange(1, 6).Draw(t, "ndamage")
	if rapid.IntRange(0, 2).Draw(t, "fewdamage") > 0 {
		nd = rapid.IntRange(1, 2).Draw(t, "ndamage2")
	}
	ml := scen.MaxLen(c.Files)
	for i := 0; i < nd; i++ {
		c.Damage = append(c.Damage, scen.GenDamage(t, len(c.Files), ml, S, nil))
	}
	if rapid.IntRange(0, 3).Draw(t, "delvol") == 0 {
		c.DelVolumes = rapid.SliceOfN(rapid.IntRange(0, 7), 1, 3).Draw(t, "delvols")
	}
	return c
}

func TestCheck(t *testing.T) {
	cfg := run.Load("C01")
	rec := run.NewRec(cfg)
	defer rec.Finish(t)

	do := func(c scen.Case) bool {
		rec.Eval()
		v := check(c)
		rec.Class("expect=" + v.expect)
		total := scen.TotalSlices(c.Files, c.Slice)
		if total > 256 {
			rec.Class("slices>256")
		}
		if total > 4096 {
			rec.Class("slices>4096")
		}
		for _, f := range c.Files {
			if f.Size > 16384 {
				rec.Class("file>16KiB")
				break
			}
		}
		if c.NRec > 1 {
			rec.Class("multi-volume")
		}
		if c.NRec > 12 {
			rec.Class("blocks>12")
		}
		if c.Index != "" {
			rec.Class("index-name-variant")
		}
		if c.GRepair > 1 || c.GCreate > 1 {
			rec.Class("goroutines>1")
		}
		if len(c.DelVolumes) > 0 {
			rec.Class("recovery-files-deleted")
		}
		for _, d := range c.Damage {
			rec.Class("damage=" + d.Op)
		}
		if v.msg != "" {
			return rec.Fail("par2", c, v.key, v.msg) == ""
		}
		if v.expect == "ok" && v.unusable > 0 && v.unusable == c.NRec && len(c.DelVolumes) == 0 {
			rec.Class("tight(k==available)")
		}
		if v.nontriv {
			rec.NonTrivial(c)
		}
		return true
	}
	if cfg.Replay != "" {
		if rec.ReplayFuzzRapid(t, cfg.Replay, fuzzProps) {
			return
		}
		var c scen.Case
		if _, err := run.LoadReplay(cfg.Replay, &c); err != nil {
			t.Fatal(err)
		}
		do(c)
		return
	}
	for _, f := range cfg.RegressFiles() {
		var c scen.Case
		if _, err := run.LoadReplay(f, &c); err == nil && cfg.Shard == 0 {
			do(c)
		}
	}

	// fixed large shapes
	if cfg.Shard == 1 {
		// exactly the 32768-slice limit and one beyond it
		if cfg.Thorough() {
			do(scen.Case{Slice: 4, NRec: 2, GCreate: 4, GRepair: 3, Files: []scen.FileSpec{{Name: "big.bin", Size: 4 * 32768, Kind: "random", Seed: 3}},
				Damage: []scen.Damage{{Op: "overwrite", File: 0, Off: 40000, Len: 5, Seed: 1}}})
		}
		do(scen.Case{Slice: 4, NRec: 1, GCreate: 2, GRepair: 2, Files: []scen.FileSpec{{Name: "big.bin", Size: 4*32768 + 1, Kind: "random", Seed: 4}}})
	}

	// files of a megabyte and more whose second half is all zero (sizes that are multiples of 64 KiB / 1 MiB and sizes that are
	// not): a writer that treats runs of zeros specially must still produce every byte
	for k, sz := range []int{2 << 20, 1 << 20, 1<<20 + 102400, 3<<20 + 65536, 131072, 196608} {
		if cfg.Shard != (4+k)%cfg.NShards || ((k == 2 || k == 3) && !cfg.Thorough()) {
			continue
		}
		rec.Class("file-with-long-zero-tail")
		do(scen.Case{Slice: map[bool]int{true: 4096, false: 65536}[sz < 1<<20], NRec: 2, GCreate: 4, GRepair: 1 + k, DoubleCheck: k%2 == 0, Files: []scen.FileSpec{{Name: "img.bin", Size: sz, Kind: "halfzero", Seed: uint64(70 + k)}, {Name: "small.txt", Size: 300, Kind: "random", Seed: 5}},
			Damage: []scen.Damage{{Op: "flip", File: 0, Off: 1000 + k}}})
	}

	// "cat F G > F; rm G" where F is a whole number of slices: G's slices sit behind F's complete content
	for k := 0; k < 3; k++ {
		if cfg.Shard != (15+k)%cfg.NShards {
			continue
		}
		rec.Class("lost-file-appended-to-a-complete-file")
		S := []int{8, 64, 1000}[k]
		files := []scen.FileSpec{{Name: "f.bin", Size: 4 * S, Kind: "random", Seed: uint64(15 + k)}, {Name: "g.bin", Size: 3*S - k, Kind: "random", Seed: uint64(25 + k)}, {Name: "h.bin", Size: 10, Kind: "random", Seed: 3}}
		do(scen.Case{Slice: S, NRec: 1, GCreate: 1, GRepair: 1 + k, Files: files, Damage: []scen.Damage{{Op: "catonto", File: 0, Other: 1}}})
		do(scen.Case{Slice: S, NRec: 1, GCreate: 1, GRepair: 1, Files: files, Damage: []scen.Damage{{Op: "catonto", File: 0, Other: 1}}, DelVolumes: []int{0, 1, 2}})
	}
	// files of 16 MiB and more: content shifted by one byte, damage in the last slice of an 8 MiB segment, two files exchanged
	for k := 0; k < 3; k++ {
		if cfg.Shard != (2+5*k)%cfg.NShards {
			continue
		}
		rec.Class("file>=16MiB")
		big := []scen.FileSpec{{Name: "big.bin", Size: 20 << 20, Kind: "random", Seed: uint64(91 + k)}, {Name: "small.bin", Size: 5000, Kind: "random", Seed: 92}}
		switch k {
		case 0:
			do(scen.Case{Slice: 4096, NRec: 1, GCreate: 4, GRepair: 4, Files: big, Damage: []scen.Damage{{Op: "insert", File: 0, Off: 0, Len: 1, Seed: 1}}})
		case 1:
			do(scen.Case{Slice: 4096, NRec: 1, GCreate: 4, GRepair: 4, Files: big, Damage: []scen.Damage{{Op: "flip", File: 0, Off: 2047*4096 + 5}}})
		case 2:
			two := []scen.FileSpec{{Name: "one.bin", Size: 16 << 20, Kind: "random", Seed: 93}, {Name: "two.bin", Size: 16 << 20, Kind: "random", Seed: 94}}
			do(scen.Case{Slice: 1 << 20, NRec: 1, GCreate: 4, GRepair: 2, Files: two, Damage: []scen.Damage{{Op: "swap", File: 0, Other: 1}}})
		}
	}
	// a file is turned into its MD5 twin (six bit flips, same length and MD5): the slice is lost and must be restored
	for k := 0; k < 3; k++ {
		if cfg.Shard != (12+k)%cfg.NShards {
			continue
		}
		rec.Class("md5-colliding-content")
		files := []scen.FileSpec{{Name: "a.bin", Size: 200 + 64*k, Kind: "md5a", Seed: uint64(5 + k)}, {Name: "b.bin", Size: 100, Kind: "random", Seed: 6}}
		do(scen.Case{Slice: 128, NRec: 2, GCreate: 1, GRepair: 1 + k, DoubleCheck: k == 1, Files: files, Damage: []scen.Damage{{Op: "md5twin", File: 0}}})
		do(scen.Case{Slice: 64, NRec: 3, GCreate: 1, GRepair: 1, Files: files, Damage: []scen.Damage{{Op: "md5twin", File: 0}, {Op: "flip", File: 1, Off: 3}}})
	}
	// a slice is overwritten by other content with the same CRC-32 while the slice's real content survives only in a file that
	// is scanned later (under another protected name): a rejected CRC hit says nothing about later windows
	for k := 0; k < 3; k++ {
		if cfg.Shard != (9+k)%cfg.NShards {
			continue
		}
		rec.Class("crc-forged-slice-with-real-copy-elsewhere")
		files := []scen.FileSpec{{Name: "a.dat", Size: 32, Kind: "random", Seed: uint64(31 + k)}, {Name: "b.dat", Size: 32, Kind: "random", Seed: uint64(41 + k)}, {Name: "c.dat", Size: 24, Kind: "random", Seed: uint64(51 + k)}}
		// one file's original content is first copied over the other protected name, then slices of the original are CRC-forged in place
		do(scen.Case{Slice: 8, NRec: 5, GCreate: 1, GRepair: 1 + k, Files: files,
			Damage: []scen.Damage{{Op: "copy", File: 0, Other: 1}, {Op: "crcforge", File: 0, Off: 0, Len: 8, Seed: uint64(k + 1)}, {Op: "crcforge", File: 0, Off: 16, Len: 8, Seed: uint64(k + 5)}}})
		do(scen.Case{Slice: 8, NRec: 5, GCreate: 1, GRepair: 1 + k, Files: files,
			Damage: []scen.Damage{{Op: "copy", File: 1, Other: 0}, {Op: "crcforge", File: 1, Off: 8, Len: 8, Seed: uint64(k + 2)}}})
	}

	// the PAR2 format's own singular combination: exponents {0,3} and two slices whose constants have equal cubes
	if cfg.Shard == 2%cfg.NShards || cfg.Shard == 3%cfg.NShards {
		ci := gf16.PAR2Constants(12000)
		pi, pj := -1, -1
		seen := map[uint16]int{}
		for j, c := range ci {
			k := gf16.FPow(c, 3)
			if i, ok := seen[k]; ok {
				pi, pj = i, j
				break
			}
			seen[k] = j
		}
		if pi >= 0 {
			mk := func(a, b int) scen.Case {
				return scen.Case{Slice: 8, NRec: 4, GCreate: 3, GRepair: 2, Files: []scen.FileSpec{{Name: "one.bin", Size: 8 * (pj + 2), Kind: "random", Seed: 11}},
					Damage:     []scen.Damage{{Op: "flip", File: 0, Off: 8 * a, Seed: 1}, {Op: "flip", File: 0, Off: 8*b + 1, Seed: 2}},
					DelVolumes: []int{1}}
			}
			if cfg.Shard == 2%cfg.NShards {
				rec.Class("singular-pair-constructed")
				do(mk(pi, pj)) // singular by the format: must be reported as an error
			} else {
				do(mk(pi, pj-1)) // same shape, non-singular: must be repaired
			}
		}
	}

	// gopar's own volume layout with 258 blocks: only vol00+01 and vol255+03 survive, so exponents {0,255,256} are used;
	// two of the three lost slices have constants that agree at exponent 255 (zero leading minor, non-singular system)
	if cfg.Shard == 4%cfg.NShards || cfg.Shard == 5%cfg.NShards {
		ci := gf16.PAR2Constants(400)
		pa, pb := -1, -1
		seen := map[uint16]int{}
		for j, c := range ci {
			k := gf16.FPow(c, 255)
			if i, ok := seen[k]; ok {
				pa, pb = i, j
				break
			}
			seen[k] = j
		}
		if pa >= 0 {
			third := pb + 7
			if cfg.Shard == 5%cfg.NShards {
				third = pa + 1
			}
			rec.Class("zero-leading-minor-constructed")
			do(scen.Case{Slice: 8, NRec: 258, GCreate: 4, GRepair: 2, Files: []scen.FileSpec{{Name: "one.bin", Size: 8 * (pb + 20), Kind: "random", Seed: 21}},
				Damage:       []scen.Damage{{Op: "flip", File: 0, Off: 8 * pa, Seed: 1}, {Op: "flip", File: 0, Off: 8*pb + 3, Seed: 2}, {Op: "flip", File: 0, Off: 8*third + 5, Seed: 3}},
				KeepVolsWith: []int{0, 255}})
		}
	}

	cfg.SetRapid(cfg.N(700, 9000), 1)
	rapid.Check(t, func(rt *rapid.T) {
		if !do(gen(rt, 0)) {
			rt.Fatalf("C01 failed")
		}
	})
	cfg.SetRapid(cfg.N(12, 150), 2)
	rapid.Check(t, func(rt *rapid.T) {
		if !do(gen(rt, 1)) {
			rt.Fatalf("C01 failed")
		}
	})
	if cfg.Thorough() {
		cfg.SetRapid(12, 3)
		rapid.Check(t, func(rt *rapid.T) {
			if !do(gen(rt, 2)) {
				rt.Fatalf("C01 failed")
			}
		})
	}
}
