package c01

import (
	"testing"

	"pgregory.net/rapid"
	"verifharness/ref/run"
)

// Coverage-guided stage: the scenario generator of TestCheck (small sets) driven by the fuzzing engine's bytes.
func scenProp(rt *rapid.T) run.RapidVerdict {
	c := gen(rt, 0)
	v := check(c)
	return run.RapidVerdict{Case: c, Kind: "repair", Msg: v.msg, Key: v.key, Class: "expect=" + v.expect, NonTrivial: v.nontriv}
}

var fuzzProps = map[string]func(*rapid.T) run.RapidVerdict{"FuzzScenario": scenProp}

func FuzzScenario(f *testing.F) { run.FuzzRapid(f, "C01", scenProp) }
