// C17: Create is deterministic and invariant under irrelevant variation.
package c17

import (
	"bytes"
	"fmt"
	"os"
	"os/exec"
	"path/filepath"
	"sort"
	"strconv"
	"strings"
	"sync"
	"testing"

	"github.com/akalin/gopar/par1"
	"github.com/akalin/gopar/par2"
	"pgregory.net/rapid"
	"verifharness/ref/fsx"
	"verifharness/ref/run"
	"verifharness/ref/scen"
)

// Var is one variation of how Create is invoked.
type Var struct {
	G        int    `json:"g"`
	Perm     []int  `json:"perm,omitempty"` // PAR2: order of the input list
	Cwd      string `json:"cwd"`            // set | parent | unrelated
	Spelling string `json:"spelling"`       // abs | rel | dot | dslash | updown
	CLI      bool   `json:"cli"`
	PreExist bool   `json:"pre_exist,omitempty"` // longer files already sit at the output names
	Siblings bool   `json:"siblings,omitempty"` // files that are not inputs, but whose names match an input's name read as a glob pattern, lie beside the inputs
	Overlap  int    `json:"overlap,omitempty"`   // (case level) this many runs on different sets overlap in time within one process (absolute paths, no chdir)
	DupMixed bool   `json:"dup_mixed,omitempty"` // (case level) the first input is listed twice; in the variation the repeat uses the other spelling
}

// Case compares a variation with the baseline invocation.
type Case struct {
	Format string          `json:"format"`
	Files  []scen.FileSpec `json:"files"`
	Slice  int             `json:"slice"`
	N      int             `json:"n"`
	Var    Var             `json:"var"`
}

func spell(p, cwd, how string) string {
	rel, err := filepath.Rel(cwd, p)
	if err != nil {
		rel = p
	}
	switch how {
	case "rel":
		return rel
	case "dot":
		return "./" + rel
	case "dslash":
		return strings.ReplaceAll(p, "/w/", "//w///")
	case "updown":
		return filepath.Dir(p) + "/zsub/../" + filepath.Base(p)
	case "symup":
		// through a symbolic link to a directory two levels down: lexically the same path, physically "zlink/.." is zsub/deeper/..
		return filepath.Dir(p) + "/zlink/../" + filepath.Base(p)
	}
	return p
}

var baselineOutputs map[string][]byte
var dupInput bool

func create(c Case, v Var) (map[string][]byte, string) {
	root := run.Scratch("c17")
	defer os.RemoveAll(root)
	dir := filepath.Join(root, "p", "w")
	S := c.Slice
	if c.Format == "par1" {
		S = 64
	}
	orig := map[string][]byte{}
	var names []string
	for _, f := range c.Files {
		orig[f.Name] = f.Content(S)
		names = append(names, f.Name)
	}
	fsx.WriteTree(dir, orig)
	os.MkdirAll(filepath.Join(dir, "zsub"), 0o755)
	for _, n := range names {
		os.MkdirAll(filepath.Join(dir, filepath.Dir(n), "zsub"), 0o755)
	}
	os.MkdirAll(filepath.Join(root, "elsewhere"), 0o755)
	for _, n := range append([]string{"."}, names...) {
		// every directory that holds an input has a link "zlink" to <dir>/zsub/deeper, and zsub holds decoys with the inputs' base names
		d := filepath.Join(dir, filepath.Dir(n))
		os.MkdirAll(filepath.Join(d, "zsub", "deeper"), 0o755)
		os.Symlink(filepath.Join("zsub", "deeper"), filepath.Join(d, "zlink"))
		if n != "." {
			os.WriteFile(filepath.Join(d, "zsub", filepath.Base(n)), []byte("decoy with the same base name"), 0o644)
		}
	}
	if v.Siblings {
		// files that are not inputs but would match an input's name taken as a glob pattern
		for _, sib := range []string{"track1.bin", "whatX.txt", "whatY.txt", "st_r.dat"} {
			os.WriteFile(filepath.Join(dir, sib), []byte("not an input: "+sib), 0o644)
		}
	}
	if c.Format == "par2" && len(v.Perm) == len(names) {
		pn := make([]string, len(names))
		for i, k := range v.Perm {
			pn[i] = names[k]
		}
		names = pn
	}
	cwd := map[string]string{"set": dir, "parent": filepath.Join(root, "p"), "unrelated": filepath.Join(root, "elsewhere"), "removed": filepath.Join(root, "gone")}[v.Cwd]
	if v.Cwd == "removed" {
		os.MkdirAll(cwd, 0o755)
	}
	if cwd == "" {
		cwd = filepath.Join(root, "elsewhere")
	}
	ext := ".par2"
	if c.Format == "par1" {
		ext = ".par"
	}
	idxSpelling := v.Spelling
	if idxSpelling == "symup" {
		idxSpelling = "abs" // where the index is written is the caller's choice; only the inputs are spelled through the link
	}
	idx := spell(filepath.Join(dir, "set"+ext), cwd, idxSpelling)
	var paths []string
	for _, n := range names {
		paths = append(paths, spell(filepath.Join(dir, n), cwd, v.Spelling))
	}
	if dupInput && c.Format == "par2" {
		// the first file is listed a second time; the variation spells the repeat differently from the first mention
		other := "abs"
		if v.Spelling == "abs" && v.DupMixed {
			other = "rel"
		}
		if !v.DupMixed {
			other = v.Spelling
		}
		paths = append(paths, spell(filepath.Join(dir, c.Files[0].Name), cwd, other))
	}
	if v.PreExist {
		for n, b := range baselineOutputs {
			g := append(append([]byte{}, b...), bytes.Repeat([]byte("stale tail "), 40)...)
			os.WriteFile(filepath.Join(dir, n), g, 0o644)
		}
	}
	before, _ := fsx.Take(dir)
	if v.CLI {
		bin := os.Getenv("VERIF_PAR_BIN")
		args := []string{}
		if c.Format == "par2" {
			args = append(args, "-g", strconv.Itoa(v.G))
		}
		args = append(args, "c")
		if c.Format == "par2" {
			args = append(args, "-s", strconv.Itoa(c.Slice))
		}
		args = append(args, "-c", strconv.Itoa(c.N), idx)
		args = append(args, paths...)
		cmd := exec.Command(bin, args...)
		cmd.Dir = cwd
		out, err := cmd.CombinedOutput()
		if err != nil {
			return nil, fmt.Sprintf("par %v failed: %v\n%s", args, err, tail(out))
		}
	} else {
		old, _ := os.Getwd()
		os.Chdir(cwd)
		if v.Cwd == "removed" {
			// the working directory no longer exists (only absolute spellings make sense from here)
			os.Remove(cwd)
		}
		var err error
		pan, msg := run.Safe(func() {
			if c.Format == "par2" {
				err = par2.Create(idx, paths, par2.CreateOptions{SliceByteCount: c.Slice, NumParityShards: c.N, NumGoroutines: v.G})
			} else {
				err = par1.Create(idx, paths, par1.CreateOptions{NumParityFiles: c.N})
			}
		})
		os.Chdir(old)
		if pan {
			return nil, "Create panicked: " + msg
		}
		if err != nil {
			return nil, fmt.Sprintf("Create(%q, %q) from cwd=%s failed: %v", idx, paths, v.Cwd, err)
		}
	}
	after, _ := fsx.Take(dir)
	out := map[string][]byte{}
	for _, ch := range fsx.Diff(before, after) {
		if ch.Kind != "created" && !(v.PreExist && (ch.Kind == "content" || ch.Kind == "mtime")) {
			return nil, fmt.Sprintf("Create %s %q", ch.Kind, ch.Path)
		}
		out[ch.Path] = after[ch.Path].Data
	}
	return out, ""
}

func tail(b []byte) string {
	if len(b) > 600 {
		b = b[len(b)-600:]
	}
	return string(b)
}

// createAbs runs Create in a fresh directory with absolute paths and without touching process-wide state.
func createAbs(c Case, bump uint64, g int) (map[string][]byte, string) {
	root := run.Scratch("c17o")
	defer os.RemoveAll(root)
	dir := filepath.Join(root, "w")
	S := c.Slice
	if c.Format == "par1" {
		S = 64
	}
	orig := map[string][]byte{}
	var paths []string
	for _, f := range c.Files {
		f.Seed += bump
		orig[f.Name] = f.Content(S)
		paths = append(paths, filepath.Join(dir, f.Name))
	}
	fsx.WriteTree(dir, orig)
	before, _ := fsx.Take(dir)
	var err error
	pan, msg := run.Safe(func() {
		if c.Format == "par2" {
			err = par2.Create(filepath.Join(dir, "set.par2"), paths, par2.CreateOptions{SliceByteCount: c.Slice, NumParityShards: c.N, NumGoroutines: g})
		} else {
			err = par1.Create(filepath.Join(dir, "set.par"), paths, par1.CreateOptions{NumParityFiles: c.N})
		}
	})
	if pan {
		return nil, "Create panicked: " + msg
	}
	if err != nil {
		return nil, "Create failed: " + err.Error()
	}
	after, _ := fsx.Take(dir)
	out := map[string][]byte{}
	for _, ch := range fsx.Diff(before, after) {
		out[ch.Path] = after[ch.Path].Data
	}
	return out, ""
}

// checkOverlap: repeated runs give identical bytes also when runs on unrelated sets overlap in time.
func checkOverlap(c Case) string {
	k := c.Var.Overlap
	bases := make([]map[string][]byte, k)
	for j := 0; j < k; j++ {
		b, msg := createAbs(c, uint64(j)*1000, 1)
		if msg != "" {
			return "baseline: " + msg
		}
		bases[j] = b
	}
	msgs := make([]string, k)
	var wg sync.WaitGroup
	for j := 0; j < k; j++ {
		wg.Add(1)
		go func(j int) {
			defer wg.Done()
			for r := 0; r < 15 && msgs[j] == ""; r++ {
				got, msg := createAbs(c, uint64(j)*1000, c.Var.G)
				if msg != "" {
					msgs[j] = fmt.Sprintf("run %d of set %d while %d other runs overlap: %s", r, j, k-1, msg)
					return
				}
				for n, b := range bases[j] {
					if !bytes.Equal(got[n], b) {
						msgs[j] = fmt.Sprintf("run %d of set %d wrote different bytes for %q than the same run alone, while %d runs on other sets overlapped in time", r, j, n, k-1)
						return
					}
				}
			}
		}(j)
	}
	wg.Wait()
	for _, m := range msgs {
		if m != "" {
			return m
		}
	}
	return ""
}

func check(c Case) string {
	if c.Var.Overlap > 1 {
		return checkOverlap(c)
	}
	dupInput = c.Var.DupMixed
	defer func() { dupInput = false }()
	base, msg := create(c, Var{G: 1, Cwd: "unrelated", Spelling: "abs"})
	if msg != "" {
		return "baseline: " + msg
	}
	baselineOutputs = base
	got, msg := create(c, c.Var)
	if msg != "" {
		return "variation: " + msg
	}
	var names []string
	for n := range base {
		names = append(names, n)
	}
	sort.Strings(names)
	for _, n := range names {
		g, ok := got[n]
		if !ok {
			return fmt.Sprintf("variation %+v did not write %q", c.Var, n)
		}
		if !bytes.Equal(g, base[n]) {
			return fmt.Sprintf("bytes of %q differ between the baseline and variation %+v", n, c.Var)
		}
	}
	if len(got) != len(base) {
		return fmt.Sprintf("variation wrote %d files, baseline %d", len(got), len(base))
	}
	return ""
}

func TestCheck(t *testing.T) {
	cfg := run.Load("C17")
	rec := run.NewRec(cfg)
	defer rec.Finish(t)
	do := func(c Case) bool {
		rec.Eval()
		rec.Class("format=" + c.Format)
		rec.Class("cwd=" + c.Var.Cwd)
		rec.Class("spelling=" + c.Var.Spelling)
		if c.Var.CLI {
			rec.Class("cli")
		}
		if c.Var.PreExist {
			rec.Class("outputs-pre-exist")
		}
		if c.Var.DupMixed {
			rec.Class("input-listed-twice-with-mixed-spellings")
		}
		if len(c.Var.Perm) > 0 {
			rec.Class("permuted-input-list")
		}
		if msg := check(c); msg != "" {
			return rec.Fail(c.Format, c, "", msg) == ""
		}
		if len(c.Files) >= 2 {
			rec.NonTrivial(c)
		}
		return true
	}
	if cfg.Replay != "" {
		var c Case
		if _, err := run.LoadReplay(cfg.Replay, &c); err != nil {
			t.Fatal(err)
		}
		do(c)
		return
	}
	for _, f := range cfg.RegressFiles() {
		var c Case
		if _, err := run.LoadReplay(f, &c); err == nil && cfg.Shard == 0 {
			do(c)
		}
	}
	// every permutation of a 4-file set (PAR2), every cwd x spelling
	idx := 0
	files4 := []scen.FileSpec{{Name: "a.dat", Size: 10, Kind: "random", Seed: 1}, {Name: "sub/b.bin", Size: 33, Kind: "random", Seed: 2}, {Name: "c c.txt", Size: 7, Kind: "alpha", Seed: 3}, {Name: "sub/deep dir/d", Size: 64, Kind: "random", Seed: 4}}
	var perms [][]int
	var rec4 func(p []int, used int)
	rec4 = func(p []int, used int) {
		if len(p) == 4 {
			perms = append(perms, append([]int{}, p...))
			return
		}
		for i := 0; i < 4; i++ {
			if used&(1<<uint(i)) == 0 {
				rec4(append(p, i), used|1<<uint(i))
			}
		}
	}
	rec4(nil, 0)
	for _, p := range perms {
		idx++
		if cfg.Mine(idx) {
			do(Case{Format: "par2", Files: files4, Slice: 8, N: 5, Var: Var{G: 1 + idx%4, Perm: p, Cwd: "unrelated", Spelling: "abs", CLI: idx%3 == 0}})
		}
	}
	// files whose IDs agree in their most significant 32 bits (two such pairs): every permutation of the input list
	twins := scen.IDTwinFiles(11, 5, 2)
	if len(twins) == 4 {
		for _, p := range perms {
			idx++
			if cfg.Mine(idx) {
				rec.Class("file-ids-agreeing-in-32-bits")
				do(Case{Format: "par2", Files: twins, Slice: 4, N: 2, Var: Var{G: 1 + idx%3, Perm: p, Cwd: "set", Spelling: "rel"}})
			}
		}
	}
	// data files whose relative spelling looks like an option of the par command (a positional argument after the index path is data)
	dashed := []scen.FileSpec{{Name: "-s", Size: 12, Kind: "random", Seed: 31}, {Name: "-c", Size: 9, Kind: "random", Seed: 32}, {Name: "-g=2", Size: 5, Kind: "random", Seed: 33}, {Name: "a.dat", Size: 20, Kind: "random", Seed: 34}}
	for k, sp := range []string{"rel", "dot", "abs"} {
		idx++
		if cfg.Mine(idx) {
			rec.Class("file-names-that-look-like-options")
			do(Case{Format: "par2", Files: dashed, Slice: 4, N: 2, Var: Var{G: 1, Cwd: "set", Spelling: sp, CLI: true}})
			do(Case{Format: "par1", Files: dashed[:3], N: 1 + k%2, Var: Var{G: 1, Cwd: "set", Spelling: sp, CLI: true}})
		}
	}
	// input names with glob metacharacters while files matching them as patterns exist; goroutine counts beyond 2^31 on the command line
	globby := []scen.FileSpec{{Name: "track[1].bin", Size: 12, Kind: "random", Seed: 41}, {Name: "what?.txt", Size: 9, Kind: "random", Seed: 42}, {Name: "st*r.dat", Size: 7, Kind: "random", Seed: 43}}
	for k, sp := range []string{"rel", "abs", "dot"} {
		idx++
		if cfg.Mine(idx) {
			rec.Class("glob-metacharacters-with-matching-siblings")
			do(Case{Format: "par2", Files: globby, Slice: 4, N: 2, Var: Var{G: 1, Cwd: "set", Spelling: sp, CLI: true, Siblings: true}})
			do(Case{Format: "par1", Files: globby, N: 1 + k%2, Var: Var{G: 1, Cwd: "set", Spelling: sp, CLI: true, Siblings: true}})
			do(Case{Format: "par2", Files: files4, Slice: 8, N: 3, Var: Var{G: []int{1 << 31, 3000000000, 1<<32 + 1}[k], Cwd: "parent", Spelling: sp, CLI: true}})
		}
	}
	// a working directory that has been removed (absolute spellings).  Spellings through symbolic links ("link/..") are not
	// varied: what such a path names is decided by the kernel, not by its spelling, and PAR1 and PAR2 Create legitimately
	// differ in whether they normalise it first
	for k, f := range []string{"par2", "par1", "par2", "par1"} {
		idx++
		if cfg.Mine(idx) {
			rec.Class("removed-cwd")
			fl := files4
			if f == "par1" {
				fl = []scen.FileSpec{{Name: "a.dat", Size: 10, Kind: "random", Seed: 1}, {Name: "b.bin", Size: 33, Kind: "random", Seed: 2}}
			}
			if k >= 2 {
				do(Case{Format: f, Files: fl, Slice: 4, N: 2, Var: Var{G: 1, Cwd: "removed", Spelling: "abs"}})
			}
		}
	}
	// repeated runs that overlap in time (one process, unrelated sets, no shared paths)
	for k, f := range []string{"par2", "par1", "par2"} {
		idx++
		if cfg.Mine(idx) {
			rec.Class("overlapping-runs")
			do(Case{Format: f, Files: files4[:3], Slice: 4, N: 2 + k, Var: Var{G: 1 + k, Cwd: "unrelated", Spelling: "abs", Overlap: 4 + 2*k}})
		}
	}
	flat := []scen.FileSpec{{Name: "a.dat", Size: 10, Kind: "random", Seed: 1}, {Name: "b.bin", Size: 0, Kind: "random", Seed: 2}, {Name: "ünï.txt", Size: 70, Kind: "random", Seed: 3}}
	for _, cwd := range []string{"set", "parent", "unrelated"} {
		for _, sp := range []string{"abs", "rel", "dot", "dslash", "updown"} {
			for _, cli := range []bool{false, true} {
				idx++
				if !cfg.Mine(idx) {
					continue
				}
				do(Case{Format: "par2", Files: files4, Slice: 4, N: 3, Var: Var{G: 2, Cwd: cwd, Spelling: sp, CLI: cli}})
				do(Case{Format: "par1", Files: flat, N: 2, Var: Var{G: 1, Cwd: cwd, Spelling: sp, CLI: cli}})
			}
		}
	}
	cfg.SetRapid(cfg.N(150, 3000), 1)
	rapid.Check(t, func(rt *rapid.T) {
		c := Case{Format: rapid.SampledFrom([]string{"par2", "par2", "par1"}).Draw(rt, "format")}
		v := Var{G: rapid.SampledFrom([]int{1, 1, 2, 3, 4, 8, 64}).Draw(rt, "g"), Cwd: rapid.SampledFrom([]string{"set", "parent", "unrelated"}).Draw(rt, "cwd"),
			Spelling: rapid.SampledFrom([]string{"abs", "rel", "dot", "dslash", "updown"}).Draw(rt, "sp"), CLI: rapid.IntRange(0, 3).Draw(rt, "cli") == 0,
			PreExist: rapid.IntRange(0, 3).Draw(rt, "preexist") == 0, DupMixed: rapid.IntRange(0, 4).Draw(rt, "dupmixed") == 0}
		if c.Format == "par2" {
			c.Slice = scen.GenSlice(rt)
			ms := 60
			if c.Slice >= 1024 {
				ms = 10
			}
			c.Files = scen.GenFiles(rt, c.Slice, 6, 20000, ms)
			c.N = rapid.IntRange(1, 9).Draw(rt, "n")
			idxs := make([]int, len(c.Files))
			for i := range idxs {
				idxs[i] = i
			}
			v.Perm = rapid.Permutation(idxs).Draw(rt, "perm")
		} else {
			c.Files = scen.GenFiles1(rt, 6, 20000)
			c.N = rapid.IntRange(1, 5).Draw(rt, "n")
		}
		c.Var = v
		if !do(c) {
			rt.Fatalf("C17 failed")
		}
	})
}
