// C09: bulk multiply kernels equal element-wise field multiplication on every path.
package c09

import (
	"bytes"
	"encoding/binary"
	"fmt"
	"runtime/debug"
	"syscall"
	"testing"
	"unsafe"

	"github.com/akalin/gopar/gf2p16"
	"pgregory.net/rapid"
	"verifharness/ref/gf16"
	"verifharness/ref/run"
)

// Case is one kernel invocation.
type Case struct {
	Path    string `json:"path"` // ssse3 | asm | go | goT | le (byte-slice kernels of the other little-endian platforms)
	Op      string `json:"op"`   // mul | muladd
	C       uint16 `json:"c"`
	N       int    `json:"n"`     // bytes, even
	AIn     int    `json:"a_in"`  // start address mod 64
	AOut    int    `json:"a_out"` // start address mod 64
	AtEnd   bool   `json:"at_end"`
	InPlace bool   `json:"in_place"`
	Fill    string `json:"fill"` // all | rand
	Seed    uint64 `json:"seed"`
	// Flush: the buffers end exactly at the guard page (AIn/AOut ignored) and their capacity extends over it, as for a
	// sub-slice of a larger allocation whose neighbour must not be touched (not even read, or rewritten with its own value)
	Flush bool `json:"flush,omitempty"`
}

const maxLen = 32<<20 + 4096

type arena struct {
	mem     []byte
	ps      int
	dataOff int
	dataLen int
}

func newArena() *arena {
	ps := syscall.Getpagesize()
	npages := (maxLen+2*64+ps-1)/ps + 1
	mem, err := syscall.Mmap(-1, 0, (npages+2)*ps, syscall.PROT_READ|syscall.PROT_WRITE, syscall.MAP_ANON|syscall.MAP_PRIVATE)
	if err != nil {
		panic(err)
	}
	if err := syscall.Mprotect(mem[:ps], syscall.PROT_NONE); err != nil {
		panic(err)
	}
	if err := syscall.Mprotect(mem[(npages+1)*ps:], syscall.PROT_NONE); err != nil {
		panic(err)
	}
	return &arena{mem: mem, ps: ps, dataOff: ps, dataLen: npages * ps}
}

// place returns the offset (into mem) of an n-byte buffer whose start address is
// congruent to align mod 64, as close as possible to the trailing (atEnd) or
// leading guard page.
func (a *arena) place(n, align int, atEnd bool) int {
	base := uintptr(unsafe.Pointer(&a.mem[0]))
	if atEnd {
		start := a.dataOff + a.dataLen - n
		for (int(base)+start)%64 != align {
			start--
		}
		return start
	}
	start := a.dataOff
	for (int(base)+start)%64 != align {
		start++
	}
	return start
}

const win = 160

func canary(i int) byte { return byte(i*131 + 89) }

func (a *arena) window(start, n int) (lo, hi int) {
	lo, hi = start-win, start+n+win
	if lo < a.dataOff {
		lo = a.dataOff
	}
	if hi > a.dataOff+a.dataLen {
		hi = a.dataOff + a.dataLen
	}
	return
}

func (a *arena) paint(start, n int) {
	lo, hi := a.window(start, n)
	for i := lo; i < hi; i++ {
		a.mem[i] = canary(i)
	}
}

func (a *arena) checkCanary(start, n int) string {
	lo, hi := a.window(start, n)
	for i := lo; i < start; i++ {
		if a.mem[i] != canary(i) {
			return fmt.Sprintf("byte %d before the buffer was modified", start-i)
		}
	}
	for i := start + n; i < hi; i++ {
		if a.mem[i] != canary(i) {
			return fmt.Sprintf("byte %d after the end of the buffer was modified", i-(start+n))
		}
	}
	return ""
}

var (
	arIn, arOut *arena
	tabCache    = map[uint16]*[65536]uint16{}
)

func table(c uint16) *[65536]uint16 {
	if t, ok := tabCache[c]; ok {
		return t
	}
	if len(tabCache) > 64 {
		tabCache = map[uint16]*[65536]uint16{}
	}
	t := gf16.MulTable(c)
	tabCache[c] = t
	return t
}

func xorshift(s *uint64) uint64 {
	x := *s
	x ^= x << 13
	x ^= x >> 7
	x ^= x << 17
	*s = x
	return x
}

func fill(b []byte, mode string, seed uint64) {
	if mode == "all" {
		// word i = (i*odd + off) mod 65536 : every word value appears when len >= 131072
		odd := uint32(seed)*2 + 1
		off := uint32(seed >> 32)
		for i := 0; i+1 < len(b); i += 2 {
			w := uint16(uint32(i/2)*odd + off)
			b[i], b[i+1] = byte(w), byte(w>>8)
		}
		return
	}
	switch mode {
	case "zeros", "lastword", "firstword", "oneword":
		for i := range b {
			b[i] = 0
		}
		if len(b) >= 2 {
			w := uint16(seed>>3) | 1
			pos := 0
			switch mode {
			case "lastword":
				pos = len(b) - 2
			case "oneword":
				pos = int(seed%uint64(len(b)/2)) * 2
			case "zeros":
				return
			}
			b[pos], b[pos+1] = byte(w), byte(w>>8)
		}
		return
	}
	s := seed | 1
	for i := 0; i+8 <= len(b); i += 8 {
		v := xorshift(&s)
		for k := 0; k < 8; k++ {
			b[i+k] = byte(v >> (8 * uint(k)))
		}
	}
	for i := len(b) &^ 7; i < len(b); i++ {
		b[i] = byte(xorshift(&s))
	}
}

func castT(b []byte) []gf2p16.T {
	if len(b) == 0 {
		return nil
	}
	return unsafe.Slice((*gf2p16.T)(unsafe.Pointer(&b[0])), len(b)/2)
}

func check(c Case) string {
	if arIn == nil {
		arIn, arOut = newArena(), newArena()
	}
	if c.N%2 != 0 || c.N < 0 || c.N > maxLen {
		return "harness: bad case length"
	}
	if c.Path == "goT" && (c.AIn%2 != 0 || c.AOut%2 != 0) {
		return ""
	}
	sIn := arIn.place(c.N, c.AIn, c.AtEnd)
	sOut := arOut.place(c.N, c.AOut, c.AtEnd)
	if c.Flush {
		sIn, sOut = arIn.dataOff+arIn.dataLen-c.N, arOut.dataOff+arOut.dataLen-c.N
	}
	arIn.paint(sIn, c.N)
	arOut.paint(sOut, c.N)
	in := arIn.mem[sIn : sIn+c.N : sIn+c.N]
	out := arOut.mem[sOut : sOut+c.N : sOut+c.N]
	if c.Flush {
		in = arIn.mem[sIn : sIn+c.N : len(arIn.mem)]
		out = arOut.mem[sOut : sOut+c.N : len(arOut.mem)]
	}
	fill(in, c.Fill, c.Seed)
	fill(out, "rand", c.Seed^0x9e3779b97f4a7c15)
	if c.InPlace {
		// the matrix code calls the kernels with in == out
		out = in
	}
	inCopy := append([]byte(nil), in...)
	outCopy := append([]byte(nil), out...)

	old := gf2p16.VerifHasSSSE3()
	defer gf2p16.VerifSetUseSSSE3(old)
	if c.Path == "ssse3" && !old {
		return "" // counted as not executed by the caller
	}
	k := gf2p16.T(c.C)
	var call func()
	switch c.Path + "/" + c.Op {
	case "ssse3/mul":
		call = func() { gf2p16.VerifSetUseSSSE3(true); gf2p16.MulByteSliceLE(k, in, out) }
	case "ssse3/muladd":
		call = func() { gf2p16.VerifSetUseSSSE3(true); gf2p16.MulAndAddByteSliceLE(k, in, out) }
	case "asm/mul":
		call = func() { gf2p16.VerifSetUseSSSE3(false); gf2p16.MulByteSliceLE(k, in, out) }
	case "asm/muladd":
		call = func() { gf2p16.VerifSetUseSSSE3(false); gf2p16.MulAndAddByteSliceLE(k, in, out) }
	case "go/mul":
		call = func() { gf2p16.VerifMulByteSliceLEGeneric(k, in, out) }
	case "go/muladd":
		call = func() { gf2p16.VerifMulAndAddByteSliceLEGeneric(k, in, out) }
	case "le/mul":
		call = func() { gf2p16.VerifMulByteSliceLEPlatformLE(k, in, out) }
	case "le/muladd":
		call = func() { gf2p16.VerifMulAndAddByteSliceLEPlatformLE(k, in, out) }
	case "goT/mul":
		call = func() { gf2p16.VerifMulSliceGeneric(k, castT(in), castT(out)) }
	case "goT/muladd":
		call = func() { gf2p16.VerifMulAndAddSliceGeneric(k, castT(in), castT(out)) }
	default:
		return "harness: unknown path/op"
	}
	oldPF := debug.SetPanicOnFault(true)
	panicked, pmsg := run.Safe(call)
	debug.SetPanicOnFault(oldPF)
	if panicked {
		return fmt.Sprintf("kernel faulted/panicked (out-of-bounds access hits the guard page): %s", firstLine(pmsg))
	}
	tab := table(c.C)
	for i := 0; i+1 < c.N; i += 2 {
		w := uint16(inCopy[i]) | uint16(inCopy[i+1])<<8
		want := tab[w]
		if c.Op == "muladd" {
			want ^= uint16(outCopy[i]) | uint16(outCopy[i+1])<<8
		}
		got := uint16(out[i]) | uint16(out[i+1])<<8
		if got != want {
			return fmt.Sprintf("word %d (of %d): in=%#04x c=%#04x got %#04x want %#04x", i/2, c.N/2, w, c.C, got, want)
		}
	}
	if !c.InPlace {
		for i := range in {
			if in[i] != inCopy[i] {
				return fmt.Sprintf("input byte %d modified", i)
			}
		}
	}
	if m := arIn.checkCanary(sIn, c.N); m != "" {
		return "input side: " + m
	}
	if m := arOut.checkCanary(sOut, c.N); m != "" {
		return "output side: " + m
	}
	return ""
}

// callKernel invokes one kernel path on plain slices (no arena).
func callKernel(path, op string, cc uint16, in, out []byte) {
	k := gf2p16.T(cc)
	old := gf2p16.VerifHasSSSE3()
	defer gf2p16.VerifSetUseSSSE3(old)
	switch path {
	case "ssse3", "asm":
		gf2p16.VerifSetUseSSSE3(path == "ssse3" && old)
		if op == "mul" {
			gf2p16.MulByteSliceLE(k, in, out)
		} else {
			gf2p16.MulAndAddByteSliceLE(k, in, out)
		}
	case "go":
		if op == "mul" {
			gf2p16.VerifMulByteSliceLEGeneric(k, in, out)
		} else {
			gf2p16.VerifMulAndAddByteSliceLEGeneric(k, in, out)
		}
	case "le":
		if op == "mul" {
			gf2p16.VerifMulByteSliceLEPlatformLE(k, in, out)
		} else {
			gf2p16.VerifMulAndAddByteSliceLEPlatformLE(k, in, out)
		}
	case "goT":
		if op == "mul" {
			gf2p16.VerifMulSliceGeneric(k, castT(in), castT(out))
		} else {
			gf2p16.VerifMulAndAddSliceGeneric(k, castT(in), castT(out))
		}
	}
}

func firstLine(s string) string {
	for i := 0; i < len(s); i++ {
		if s[i] == '\n' {
			return s[:i]
		}
	}
	return s
}

// knownKey maps a failing case to a known-finding key (signature).
func knownKey(c Case) string {
	// D1: the non-SSSE3 assembly kernels compute the element count with a 16-bit shift.
	tail := c.N
	if c.Path == "ssse3" {
		tail = c.N % 32
		if c.N < 32 {
			tail = c.N
		}
	}
	if (c.Path == "asm" || c.Path == "ssse3") && tail >= 65536 {
		return "D1-asm-16bit-count"
	}
	return ""
}

var paths = []string{"ssse3", "asm", "go", "goT", "le"}
var ops = []string{"mul", "muladd"}

func TestCheck(t *testing.T) {
	cfg := run.Load("C09")
	rec := run.NewRec(cfg)
	defer rec.Finish(t)
	if !gf2p16.VerifHasSSSE3() {
		rec.Class("ssse3-path-not-available-on-this-cpu")
	}

	do := func(c Case) bool {
		rec.Eval()
		rec.Class(c.Path + "/" + c.Op)
		if c.N >= 65536 {
			rec.Class("len>=65536")
		}
		if c.Path == "ssse3" && c.N >= 32 && c.N%32 != 0 {
			rec.Class("tail-after-simd-blocks")
		}
		if c.AIn%16 != 0 || c.AOut%16 != 0 {
			rec.Class("unaligned")
		}
		if c.InPlace {
			rec.Class("in-place")
		}
		if msg := check(c); msg != "" {
			return rec.Fail(c.Path+"-"+c.Op, c, knownKey(c), fmt.Sprintf("%+v: %s", c, msg)) == ""
		}
		if c.C > 1 && c.N >= 2 {
			rec.NonTrivial(c)
		}
		return true
	}

	if cfg.Replay != "" {
		var c Case
		if _, err := run.LoadReplay(cfg.Replay, &c); err != nil {
			t.Fatal(err)
		}
		do(c)
		return
	}
	for _, f := range cfg.RegressFiles() {
		var c Case
		if _, err := run.LoadReplay(f, &c); err == nil && cfg.Shard == 0 {
			do(c)
		}
	}

	idx := 0
	mine := func() bool { idx++; return cfg.Mine(idx) }

	// (1) constants x all 65536 word values on every path
	nconst := cfg.N(2048, 65536)
	for i := 0; i < nconst; i++ {
		c := uint16(i)
		if !cfg.Thorough() {
			// spread the quick constants: low values, high values and a stride
			c = uint16(i*127 + i/4)
		}
		for _, p := range paths {
			for _, op := range ops {
				if !mine() {
					continue
				}
				if !do(Case{Path: p, Op: op, C: c, N: 131072, AIn: (i * 2) % 64, AOut: (i * 6) % 64, AtEnd: i%2 == 0, Fill: "all", Seed: uint64(i)*2654435761 + 12345}) {
					if rec.NViolations() > 3 {
						return
					}
				}
			}
		}
	}
	if cfg.Thorough() {
		rec.SetExtra("exhaustive", true)
		rec.SetExtra("exhaustive_note", "all 65536 constants x all 65536 word values on each of the paths ssse3, asm, go, goT for mul and muladd; all even lengths 0..1024; all 64x64 alignment pairs for a set of lengths")
	}

	// (2) all even lengths 0..L, both placements, a few constants
	maxL := cfg.N(200, 1024)
	consts := []uint16{0, 1, 2, 3, 0x100b, 0x8000, 0xffff, 0x1234}
	for n := 0; n <= maxL; n += 2 {
		for ci, c := range consts {
			if !cfg.Thorough() && ci%2 == 1 && n > 70 {
				continue
			}
			for _, p := range paths {
				for _, op := range ops {
					for _, atEnd := range []bool{true, false} {
						if !mine() {
							continue
						}
						do(Case{Path: p, Op: op, C: c, N: n, AIn: (n / 2 * 3) % 64, AOut: (n/2*5 + ci) % 64, AtEnd: atEnd, Fill: "rand", Seed: uint64(n*977 + ci)})
						if n > 0 && atEnd {
							do(Case{Path: p, Op: op, C: c, N: n, AIn: (n + ci) % 64, AOut: (n + ci) % 64, AtEnd: atEnd, InPlace: true, Fill: "rand", Seed: uint64(n*13 + ci)})
						}
					}
				}
			}
		}
	}

	// (3) lengths around 2^16 and 2^17 (and 2^18 in thorough)
	big := []int{65532, 65534, 65536, 65538, 65540, 65566, 65568, 131070, 131072, 131074, 98304}
	if cfg.Thorough() {
		big = append(big, 196608, 262142, 262144, 262146, 65536+30, 65536+32, 131072+34)
	}
	for _, n := range big {
		for ci, c := range []uint16{2, 0xfffe, 0x4321} {
			for _, p := range paths {
				for _, op := range ops {
					for _, atEnd := range []bool{true, false} {
						if !mine() {
							continue
						}
						do(Case{Path: p, Op: op, C: c, N: n, AIn: (ci * 16) % 64, AOut: (ci*16 + 2) % 64, AtEnd: atEnd, Fill: "rand", Seed: uint64(n + ci)})
					}
				}
			}
		}
	}

	// (2z) short windows of very large allocations (capacity above 2^30 bytes): only the length counts
	if cfg.Shard == 2%cfg.NShards {
		bigIn, bigOut := make([]byte, 1<<30+4096), make([]byte, 1<<30+8192)
		for _, off := range []int{0, 2, 1 << 29} {
			for pi, p := range paths {
				for _, op := range ops {
					rec.Eval()
					rec.Class("window-of-an-allocation-above-2^30-bytes")
					n := 64 + 2*pi
					in, out := bigIn[off:off+n], bigOut[off+2:off+2+n]
					for i := range in {
						in[i] = byte(i*7 + 1)
						out[i] = byte(i * 3)
					}
					want := make([]byte, n)
					tab := table(0x1d2c)
					for i := 0; i+1 < n; i += 2 {
						v := tab[uint16(in[i])|uint16(in[i+1])<<8]
						if op == "muladd" {
							v ^= uint16(out[i]) | uint16(out[i+1])<<8
						}
						want[i], want[i+1] = byte(v), byte(v>>8)
					}
					msg := ""
					if pan, pm := run.Safe(func() { callKernel(p, op, 0x1d2c, in, out) }); pan {
						msg = "kernel panicked: " + firstLine(pm)
					} else if !bytes.Equal(out, want) {
						msg = "wrong product"
					} else if bigOut[off+1] != 0 || bigOut[off+2+n] != 0 {
						msg = "bytes outside the window were written"
					}
					if msg != "" {
						rec.Fail("bigcap", Case{Path: p, Op: op, C: 0x1d2c, N: n, Fill: "bigcap"}, "", fmt.Sprintf("%s/%s on a %d-byte window at offset %d of an allocation of 2^30+ bytes: %s", p, op, n, off, msg))
					}
					for i := range out {
						out[i] = 0
					}
				}
			}
		}
	}
	// (2y) thorough: buffers longer than 2^32 bytes (lengths and offsets that do not fit into 32 bits)
	if cfg.Thorough() && cfg.Shard == 6%cfg.NShards {
		n := 1<<32 + 96
		in, out := make([]byte, n), make([]byte, n)
		marks := []int{0, 62, 4094, 1 << 20, 1<<31 - 2, 1 << 31, 1<<32 - 34, 1<<32 - 2, 1 << 32, 1<<32 + 30, 1<<32 + 64, n - 2}
		for _, m := range marks {
			in[m], in[m+1] = byte(m>>7)|1, byte(m>>15)|0x80
		}
		for _, p := range []string{"ssse3", "asm", "go"} {
			for _, op := range ops {
				rec.Eval()
				rec.Class("buffer-longer-than-2^32-bytes")
				for i := 0; i < n; i += 8 {
					binary.LittleEndian.PutUint64(out[i:], 0x5a5a5a5a5a5a5a5a)
				}
				pan, pm := run.Safe(func() { callKernel(p, op, 0x0b17, in, out) })
				msg := ""
				if pan {
					msg = "kernel panicked: " + firstLine(pm)
				} else {
					tab := table(0x0b17)
					base := uint64(0)
					if op == "muladd" {
						base = 0x5a5a5a5a5a5a5a5a
					}
					isMark := map[int]bool{}
					for _, m := range marks {
						isMark[m&^7] = true
					}
					for i := 0; i < n && msg == ""; i += 8 {
						got := binary.LittleEndian.Uint64(out[i:])
						if got == base && !isMark[i] {
							continue
						}
						for k := i; k < i+8; k += 2 {
							want := tab[uint16(in[k])|uint16(in[k+1])<<8] ^ uint16(base)
							if g := uint16(out[k]) | uint16(out[k+1])<<8; g != want {
								msg = fmt.Sprintf("word at byte offset %d: got %#04x want %#04x", k, g, want)
								break
							}
						}
					}
				}
				if msg != "" {
					rec.Fail("huge", Case{Path: p, Op: op, C: 0x0b17, N: -1, Fill: "2^32+96 bytes"}, "", fmt.Sprintf("%s/%s on a buffer of 2^32+96 bytes: %s", p, op, msg))
				}
			}
		}
	}
	// (3a) buffers that end exactly at the guard page while their capacity extends over it
	for _, n := range []int{2, 6, 14, 30, 32, 34, 46, 48, 62, 64, 66, 94, 96, 98, 126, 130, 1022, 1024, 1026, 1040, 4098, 65536 + 18} {
		for _, p := range paths {
			for _, op := range ops {
				if !mine() {
					continue
				}
				rec.Class("flush-with-guard-page-inside-capacity")
				do(Case{Path: p, Op: op, C: uint16(0x5a00 + n), N: n, AtEnd: true, Flush: true, Fill: "rand", Seed: uint64(n) + 3})
			}
		}
	}
	// (3b) multi-MiB lengths (kernels that process long buffers in pieces)
	huge := []int{1 << 20, 1<<20 + 2, 1 << 22, 1<<22 - 2, 1<<22 + 2, 3 << 20, 1 << 24}
	if cfg.Thorough() {
		huge = append(huge, 1<<23, 1<<23-32, 1<<21, 5<<20, 1<<25, 1<<24+32, 3<<23)
	}
	for hi, n := range huge {
		for _, p := range paths {
			for _, op := range ops {
				if !mine() {
					continue
				}
				do(Case{Path: p, Op: op, C: uint16(0x3c5a + hi), N: n, AIn: (hi * 8) % 64, AOut: (hi*24 + hi%2) % 64, AtEnd: true, Fill: "rand", Seed: uint64(n + hi)})
			}
		}
	}
	// (3c) sparse inputs: all zero, or zero except one word (first, last, somewhere), around the SIMD/word-count thresholds
	for _, n := range []int{2, 6, 30, 34, 62, 1022, 1024, 1026, 1028, 1030, 2050, 4098, 70000} {
		for fi, f := range []string{"zeros", "lastword", "firstword", "oneword"} {
			for _, p := range paths {
				for _, op := range ops {
					if !mine() {
						continue
					}
					do(Case{Path: p, Op: op, C: uint16(0x7001 + n), N: n, AIn: 0, AOut: 16, AtEnd: fi%2 == 0, Fill: f, Seed: uint64(n*31 + fi)})
				}
			}
		}
	}

	// (4) alignment pairs
	lens := []int{2, 30, 32, 34, 66}
	if cfg.Thorough() {
		lens = append(lens, 16, 64, 96, 130, 190)
	}
	for ai := 0; ai < 64; ai++ {
		for ao := 0; ao < 64; ao++ {
			if !cfg.Thorough() && (ai+ao)%5 != 0 && ai != ao {
				continue
			}
			for _, n := range lens {
				for _, p := range paths {
					for _, op := range ops {
						if !mine() {
							continue
						}
						do(Case{Path: p, Op: op, C: uint16(0x9000 + ai*64 + ao), N: n, AIn: ai, AOut: ao, AtEnd: (ai+ao)%2 == 0, Fill: "rand", Seed: uint64(ai*64+ao) + 7})
					}
				}
			}
		}
	}

	// (5) generated cases
	cfg.SetRapid(cfg.N(4000, 40000), 1)
	rapid.Check(t, func(rt *rapid.T) {
		var n int
		switch rapid.IntRange(0, 5).Draw(rt, "nclass") {
		case 0:
			n = 2 * rapid.IntRange(0, 40).Draw(rt, "n")
		case 1:
			n = 2 * rapid.IntRange(0, 600).Draw(rt, "n")
		case 2:
			n = 32*rapid.IntRange(1, 40).Draw(rt, "blocks") + 2*rapid.IntRange(0, 15).Draw(rt, "tail")
		case 3:
			n = 65536 + 2*rapid.IntRange(-20, 40).Draw(rt, "d")
		case 4:
			n = 131072 + 2*rapid.IntRange(-20, 40).Draw(rt, "d")
		default:
			n = 2 * rapid.IntRange(0, maxLen/2).Draw(rt, "n")
		}
		c := Case{
			Path:    rapid.SampledFrom(paths).Draw(rt, "path"),
			Op:      rapid.SampledFrom(ops).Draw(rt, "op"),
			C:       rapid.OneOf(rapid.Uint16(), rapid.SampledFrom(consts)).Draw(rt, "c"),
			N:       n,
			AIn:     rapid.IntRange(0, 63).Draw(rt, "ain"),
			AOut:    rapid.IntRange(0, 63).Draw(rt, "aout"),
			AtEnd:   rapid.Bool().Draw(rt, "atend"),
			InPlace: rapid.IntRange(0, 9).Draw(rt, "inplace") == 0,
			Fill:    rapid.SampledFrom([]string{"rand", "rand", "rand", "rand", "zeros", "lastword", "firstword", "oneword"}).Draw(rt, "fill"),
			Seed:    rapid.Uint64().Draw(rt, "seed"),
		}
		if c.InPlace {
			c.AOut = c.AIn
		}
		if !do(c) {
			rt.Fatalf("kernel check failed")
		}
	})
}
