// C11: matrix inversion and row reduction over GF(2^16) are correct.
package c11

import (
	"fmt"
	"testing"

	"github.com/akalin/gopar/gf2p16"
	"pgregory.net/rapid"
	"verifharness/ref/gf16"
	"verifharness/ref/run"
)

// Case describes a matrix deterministically (elements are a function of the fields).
type Case struct {
	Family string   `json:"family"`
	N      int      `json:"n"`
	RHS    int      `json:"rhs"` // columns of the right-hand side for RowReduceForInverse
	Seed   uint64   `json:"seed"`
	Param  int      `json:"param"`
	Elems  []uint16 `json:"elems,omitempty"` // explicit elements (small matrices)
}

func xs(s *uint64) uint64 {
	x := *s
	x ^= x << 13
	x ^= x >> 7
	x ^= x << 17
	*s = x
	return x
}

func rnd16(s *uint64) uint16 { return uint16(xs(s) >> 24) }
func nz16(s *uint64) uint16 {
	for {
		if v := rnd16(s); v != 0 {
			return v
		}
	}
}

func perm(n int, s *uint64) []int {
	p := make([]int, n)
	for i := range p {
		p[i] = i
	}
	for i := n - 1; i > 0; i-- {
		j := int(xs(s) % uint64(i+1))
		p[i], p[j] = p[j], p[i]
	}
	return p
}

// build returns the n x n matrix of the case and whether it is singular/non-singular by construction (0 unknown, 1 non-singular, 2 singular).
func build(c Case) ([]uint16, int) {
	n := c.N
	m := make([]uint16, n*n)
	s := c.Seed*2862933555777941757 + 3037000493
	if s == 0 {
		s = 1
	}
	tri := func(upper bool) []uint16 {
		a := make([]uint16, n*n)
		for i := 0; i < n; i++ {
			for j := 0; j < n; j++ {
				if i == j {
					a[i*n+j] = nz16(&s)
				} else if (j > i) == upper {
					a[i*n+j] = rnd16(&s)
				}
			}
		}
		return a
	}
	permMat := func(p []int) []uint16 {
		a := make([]uint16, n*n)
		for i, j := range p {
			a[i*n+j] = 1
		}
		return a
	}
	switch c.Family {
	case "explicit":
		copy(m, c.Elems)
		return m, 0
	case "random":
		for i := range m {
			m[i] = rnd16(&s)
		}
		return m, 0
	case "sparse":
		for i := range m {
			if xs(&s)%10 < uint64(3+c.Param%5) {
				m[i] = rnd16(&s)
			}
		}
		return m, 0
	case "smallvalues":
		for i := range m {
			m[i] = uint16(xs(&s) % 3)
		}
		return m, 0
	case "permutation":
		p := perm(n, &s)
		for i, j := range p {
			m[i*n+j] = nz16(&s)
		}
		return m, 1
	case "upper":
		return tri(true), 1
	case "lower":
		return tri(false), 1
	case "vandermonde":
		// distinct alphas => non-singular
		used := map[uint16]bool{}
		al := make([]uint16, n)
		for j := range al {
			for {
				v := rnd16(&s)
				if !used[v] {
					used[v] = true
					al[j] = v
					break
				}
			}
		}
		for i := 0; i < n; i++ {
			for j := 0; j < n; j++ {
				m[i*n+j] = gf16.FPow(al[j], uint64(i))
			}
		}
		return m, 1
	case "cauchy":
		base := uint16(xs(&s) % 30000)
		for i := 0; i < n; i++ {
			for j := 0; j < n; j++ {
				m[i*n+j] = gf16.FInv((base + uint16(n+i)) ^ (base + uint16(j)))
			}
		}
		// x_i = base+n+i, y_j = base+j are distinct as integers, hence x_i != y_j as field elements
		return m, 1
	case "lpu":
		l, u := tri(false), tri(true)
		var p []int
		if c.Param%2 == 0 {
			p = perm(n, &s)
		} else {
			// cyclic shift: every pivot position needs a swap
			p = make([]int, n)
			for i := range p {
				p[i] = (i + 1) % n
			}
		}
		_ = l
		// M = P*U needs a swap wherever p[i] != i; multiply by L on the right side of P to keep zeros: M = P * (L' * U)? keep it simple and exact:
		pu := gf16.FMatMul(n, n, n, permMat(p), u)
		if c.Param%4 >= 2 {
			return pu, 1
		}
		// L on the left mixes rows; still non-singular
		return gf16.FMatMul(n, n, n, pu, tri(true)), 1
	case "rowdep":
		// row k = combination of the other rows of a random matrix
		for i := range m {
			m[i] = rnd16(&s)
		}
		if n >= 2 {
			k := c.Param % n
			for j := 0; j < n; j++ {
				m[k*n+j] = 0
			}
			for i := 0; i < n; i++ {
				if i == k {
					continue
				}
				f := rnd16(&s)
				for j := 0; j < n; j++ {
					m[k*n+j] ^= gf16.FMul(f, m[i*n+j])
				}
			}
		} else {
			m[0] = 0
		}
		return m, 2
	case "coldep":
		// column k = combination of the earlier columns (rank drop appears exactly at pivot k)
		for i := range m {
			m[i] = rnd16(&s)
		}
		k := c.Param % n
		for i := 0; i < n; i++ {
			m[i*n+k] = 0
		}
		for j := 0; j < k; j++ {
			f := rnd16(&s)
			for i := 0; i < n; i++ {
				m[i*n+k] ^= gf16.FMul(f, m[i*n+j])
			}
		}
		return m, 2
	case "zero":
		return m, 2
	case "identity":
		for i := 0; i < n; i++ {
			m[i*n+i] = 1
		}
		return m, 1
	}
	panic("unknown family " + c.Family)
}

func toT(a []uint16) []gf2p16.T {
	out := make([]gf2p16.T, len(a))
	for i, v := range a {
		out[i] = gf2p16.T(v)
	}
	return out
}

func readBack(m gf2p16.Matrix, r, c int) []uint16 {
	out := make([]uint16, r*c)
	for i := 0; i < r; i++ {
		for j := 0; j < c; j++ {
			out[i*c+j] = uint16(m.At(i, j))
		}
	}
	return out
}

func eq(a, b []uint16) bool {
	if len(a) != len(b) {
		return false
	}
	for i := range a {
		if a[i] != b[i] {
			return false
		}
	}
	return true
}

type info struct {
	singular bool
	swaps    int
}

// operands (and results) of earlier calls stay alive for a while and are re-read after later calls: nothing a later
// call does may change them
type kept struct {
	m          gf2p16.Matrix
	rows, cols int
	want       []uint16
	what       string
}

var earlier []kept

func keep(m gf2p16.Matrix, rows, cols int, want []uint16, what string) {
	if rows*cols > 4096 {
		return
	}
	earlier = append(earlier, kept{m, rows, cols, append([]uint16{}, want...), what})
	if len(earlier) > 24 {
		earlier = earlier[len(earlier)-24:]
	}
}

func earlierIntact() string {
	for _, k := range earlier {
		if !eq(readBack(k.m, k.rows, k.cols), k.want) {
			earlier = nil
			return fmt.Sprintf("a %dx%d matrix that was %s of an earlier call changed during a later, unrelated call", k.rows, k.cols, k.what)
		}
	}
	return ""
}

func check(c Case) (string, info) {
	msg, inf := check1(c)
	if msg == "" {
		msg = earlierIntact()
	}
	return msg, inf
}

func check1(c Case) (string, info) {
	n := c.N
	elems, constr := build(c)
	rank, swaps := gf16.FRank(n, n, elems)
	singular := rank < n
	inf := info{singular, swaps}
	if (constr == 1 && singular) || (constr == 2 && !singular) {
		return fmt.Sprintf("harness error: family %s: construction says %d but reference rank is %d of %d", c.Family, constr, rank, n), inf
	}
	if n <= 24 {
		// the fast elimination agrees with the bit-serial one
		if r2 := gf16.Rank(n, n, elems); r2 != rank {
			return "harness error: fast rank != bit-serial rank", inf
		}
	}
	src := toT(elems)
	var M gf2p16.Matrix
	if p, msg := run.Safe(func() { M = gf2p16.NewMatrixFromSlice(n, n, src) }); p {
		return "NewMatrixFromSlice panicked: " + msg, inf
	}
	// the slice handed to NewMatrixFromSlice is not aliased
	for i := range src {
		src[i] ^= 0x5a5a
	}
	if !eq(readBack(M, n, n), elems) {
		return "NewMatrixFromSlice aliases the caller's slice (At changed after the slice was modified)", inf
	}

	// Inverse
	var inv gf2p16.Matrix
	var err error
	if p, msg := run.Safe(func() { inv, err = M.Inverse() }); p {
		return "Inverse panicked: " + msg, inf
	}
	if !eq(readBack(M, n, n), elems) {
		return "Inverse modified its operand", inf
	}
	if singular && err == nil {
		return fmt.Sprintf("Inverse returned no error for a singular matrix (reference rank %d of %d)", rank, n), inf
	}
	if !singular && err != nil {
		return fmt.Sprintf("Inverse returned error %q for a non-singular matrix (reference rank %d)", err, n), inf
	}
	var invE []uint16
	if !singular {
		invE = readBack(inv, n, n)
		prod := gf16.FMatMul(n, n, n, elems, invE)
		for i := 0; i < n; i++ {
			for j := 0; j < n; j++ {
				want := uint16(0)
				if i == j {
					want = 1
				}
				if prod[i*n+j] != want {
					return fmt.Sprintf("M*Inverse(M) != I at (%d,%d): %#x", i, j, prod[i*n+j]), inf
				}
			}
		}
	}

	// RowReduceForInverse with a right-hand side N (n x rhs)
	rhs := c.RHS
	if rhs < 1 {
		rhs = 1
	}
	s := c.Seed ^ 0xabcdef1234567
	if s == 0 {
		s = 7
	}
	// right-hand side shapes: random; ( N_L | I ) as documented; I; ( I | N_R ); zero
	shape := int(c.Seed>>3) % 5
	if shape == 1 || shape == 3 {
		rhs += n
	} else if shape == 2 {
		rhs = n
	}
	nE := make([]uint16, n*rhs)
	for i := range nE {
		nE[i] = rnd16(&s)
	}
	switch shape {
	case 1: // ( N_L | I )
		off := rhs - n
		for i := 0; i < n; i++ {
			for j := 0; j < n; j++ {
				nE[i*rhs+off+j] = 0
				if i == j {
					nE[i*rhs+off+j] = 1
				}
			}
		}
	case 2, 3: // I or ( I | N_R )
		for i := 0; i < n; i++ {
			for j := 0; j < n; j++ {
				nE[i*rhs+j] = 0
				if i == j {
					nE[i*rhs+j] = 1
				}
			}
		}
	case 4:
		for i := range nE {
			nE[i] = 0
		}
	}
	N := gf2p16.NewMatrixFromSlice(n, rhs, toT(nE))
	var red gf2p16.Matrix
	if p, msg := run.Safe(func() { red, err = M.RowReduceForInverse(N) }); p {
		return "RowReduceForInverse panicked: " + msg, inf
	}
	if !eq(readBack(M, n, n), elems) || !eq(readBack(N, n, rhs), nE) {
		return "RowReduceForInverse modified an operand", inf
	}
	keep(M, n, n, elems, "the left operand")
	keep(N, n, rhs, nE, "the right operand of RowReduceForInverse")
	if singular != (err != nil) {
		return fmt.Sprintf("RowReduceForInverse: singular=%v but err=%v", singular, err), inf
	}
	if !singular {
		redE := readBack(red, n, rhs)
		// M * result must equal N (unique solution because M is non-singular)
		back := gf16.FMatMul(n, n, rhs, elems, redE)
		if !eq(back, nE) {
			return "RowReduceForInverse(M,N): M*result != N", inf
		}
		// and it equals Inverse(M)*N computed by the reference product
		if !eq(gf16.FMatMul(n, n, rhs, invE, nE), redE) {
			return "RowReduceForInverse(M,N) != Inverse(M)*N", inf
		}
	}

	// Times: M (n x n) times N (n x rhs)
	var prodM gf2p16.Matrix
	if p, msg := run.Safe(func() { prodM = M.Times(N) }); p {
		return "Times panicked: " + msg, inf
	}
	if !eq(readBack(prodM, n, rhs), gf16.FMatMul(n, n, rhs, elems, nE)) {
		return "Times differs from the row-by-column reference product", inf
	}
	if !eq(readBack(M, n, n), elems) || !eq(readBack(N, n, rhs), nE) {
		return "Times modified an operand", inf
	}
	// wide right-hand side: M times a n x w matrix (w >= 16 for n >= 2), and M times itself
	if n <= 128 {
		w := 16 + n%9
		wE := make([]uint16, n*w)
		for i := range wE {
			wE[i] = rnd16(&s)
		}
		W := gf2p16.NewMatrixFromSlice(n, w, toT(wE))
		var pw, pm gf2p16.Matrix
		if p, msg := run.Safe(func() { pw = M.Times(W); pm = M.Times(M) }); p {
			return "Times panicked: " + msg, inf
		}
		if !eq(readBack(pw, n, w), gf16.FMatMul(n, n, w, elems, wE)) {
			return fmt.Sprintf("Times with a %d-column right-hand side differs from the row-by-column reference product", w), inf
		}
		if !eq(readBack(pm, n, n), gf16.FMatMul(n, n, n, elems, elems)) {
			return "M.Times(M) differs from the row-by-column reference product", inf
		}
	}
	return "", inf
}

var families = []string{"random", "sparse", "smallvalues", "permutation", "upper", "lower", "vandermonde", "cauchy", "lpu", "rowdep", "coldep", "zero", "identity"}

func TestCheck(t *testing.T) {
	cfg := run.Load("C11")
	rec := run.NewRec(cfg)
	defer rec.Finish(t)

	do := func(c Case) bool {
		rec.Eval()
		rec.Class("family=" + c.Family)
		msg, inf := check(c)
		if msg != "" {
			return rec.Fail(c.Family, c, "", fmt.Sprintf("family=%s n=%d seed=%d param=%d: %s", c.Family, c.N, c.Seed, c.Param, msg)) == ""
		}
		if inf.singular {
			rec.Class("singular")
		}
		if inf.swaps > 0 {
			rec.Class("needs-row-swap")
		}
		if c.N >= 2 && inf.swaps == c.N-1 {
			rec.Class("swap-at-every-pivot")
		}
		switch {
		case c.N > 128:
			rec.Class("n>128")
		case c.N > 32:
			rec.Class("n>32")
		}
		if c.N >= 2 && (inf.singular || inf.swaps > 0) {
			rec.NonTrivial(c)
		}
		return true
	}
	if cfg.Replay != "" {
		if rec.ReplayFuzzRapid(t, cfg.Replay, fuzzProps) {
			return
		}
		var c Case
		if _, err := run.LoadReplay(cfg.Replay, &c); err != nil {
			t.Fatal(err)
		}
		do(c)
		return
	}
	for _, f := range cfg.RegressFiles() {
		var c Case
		if _, err := run.LoadReplay(f, &c); err == nil && cfg.Shard == 0 {
			do(c)
		}
	}

	// enumerated: every family x n in 1..K, rank drop / swap at every position for small n
	idx := 0
	maxN := cfg.N(24, 64)
	for n := 1; n <= maxN; n++ {
		for _, f := range families {
			params := 1
			if f == "rowdep" || f == "coldep" {
				params = n
			} else if f == "lpu" {
				params = 4
			}
			for p := 0; p < params; p++ {
				idx++
				if !cfg.Mine(idx) {
					continue
				}
				do(Case{Family: f, N: n, RHS: 1 + (n+p)%5, Seed: uint64(n*1000 + p), Param: p})
			}
		}
	}
	// wide right-hand sides (the coder reduces against as many columns as there are data shards)
	for _, n := range []int{2, 3, 5, 9} {
		for _, w := range []int{255, 256, 257, 300, 512, 513, 700, 1030} {
			for _, f := range families {
				idx++
				if !cfg.Mine(idx) {
					continue
				}
				rec.Class("rhs-wider-than-256-columns")
				do(Case{Family: f, N: n, RHS: w, Seed: uint64(n*100000 + w*8), Param: idx % n}) // the right-hand side shape (random, (N|I), I, (I|N), zero) varies with the width
			}
		}
	}
	// consecutive products whose right operands have the same number of elements but different shapes
	if cfg.Mine(idx + 1) {
		shapes := [][2]int{{4, 9}, {6, 6}, {9, 4}, {3, 12}, {12, 3}, {2, 18}, {36, 1}, {1, 36}, {6, 6}, {18, 2}}
		for rep := 0; rep < 3; rep++ {
			for si, sh := range shapes {
				rec.Eval()
				rec.Class("times-same-element-count-different-shape")
				k, cc := sh[0], sh[1]
				r := 2 + (si+rep)%4
				sd := uint64(si*31+rep)*7919 + 11
				a, b := make([]uint16, r*k), make([]uint16, k*cc)
				for i := range a {
					a[i] = rnd16(&sd)
				}
				for i := range b {
					b[i] = rnd16(&sd)
				}
				var got []uint16
				if p, msg := run.Safe(func() {
					got = readBack(gf2p16.NewMatrixFromSlice(r, k, toT(a)).Times(gf2p16.NewMatrixFromSlice(k, cc, toT(b))), r, cc)
				}); p {
					rec.Fail("times", Case{Family: "shapes", N: si, Param: rep}, "", fmt.Sprintf("(%dx%d).Times(%dx%d) panicked after products with other shapes of the same element count: %s", r, k, k, cc, msg))
					break
				} else if !eq(got, gf16.FMatMul(r, k, cc, a, b)) {
					rec.Fail("times", Case{Family: "shapes", N: si, Param: rep}, "", fmt.Sprintf("(%dx%d).Times(%dx%d) differs from the reference product after products with other shapes of the same element count", r, k, k, cc))
					break
				}
			}
		}
	}
	// rectangular products (r x k) * (k x c) for a range of row counts
	for r := 1; r <= cfg.N(140, 330); r += 1 + r/24 {
		idx++
		if !cfg.Mine(idx) {
			continue
		}
		rec.Eval()
		rec.Class("times-rect")
		k, cc := 1+r%7, 1+r%5
		s := uint64(r)*977 + 5
		a, b := make([]uint16, r*k), make([]uint16, k*cc)
		for i := range a {
			a[i] = rnd16(&s)
		}
		for i := range b {
			b[i] = rnd16(&s)
		}
		var got []uint16
		if p, msg := run.Safe(func() {
			got = readBack(gf2p16.NewMatrixFromSlice(r, k, toT(a)).Times(gf2p16.NewMatrixFromSlice(k, cc, toT(b))), r, cc)
		}); p {
			rec.Fail("times", Case{Family: "rect", N: r}, "", "Times panicked: "+msg)
		} else if !eq(got, gf16.FMatMul(r, k, cc, a, b)) {
			rec.Fail("times", Case{Family: "rect", N: r}, "", fmt.Sprintf("Times of a %dx%d by a %dx%d matrix differs from the row-by-column reference product", r, k, k, cc))
		}
	}
	// explicit small matrices drawn element by element (good shrinking)
	cfg.SetRapid(cfg.N(6000, 40000), 1)
	rapid.Check(t, func(rt *rapid.T) {
		n := rapid.IntRange(1, 5).Draw(rt, "n")
		el := rapid.SliceOfN(rapid.OneOf(rapid.Uint16Range(0, 3), rapid.Uint16()), n*n, n*n).Draw(rt, "elems")
		if !do(Case{Family: "explicit", N: n, RHS: rapid.IntRange(1, 4).Draw(rt, "rhs"), Seed: rapid.Uint64Range(1, 1<<40).Draw(rt, "seed"), Elems: el}) {
			rt.Fatalf("matrix check failed")
		}
	})
	// generated structured matrices
	big := cfg.N(110, 300)
	cfg.SetRapid(cfg.N(1500, 4000), 2)
	rapid.Check(t, func(rt *rapid.T) {
		var n int
		switch rapid.IntRange(0, 9).Draw(rt, "nclass") {
		case 0:
			n = rapid.IntRange(big/2, big).Draw(rt, "n")
		case 1, 2:
			n = rapid.IntRange(16, big/2).Draw(rt, "n")
		default:
			n = rapid.IntRange(1, 40).Draw(rt, "n")
		}
		c := Case{Family: rapid.SampledFrom(families).Draw(rt, "family"), N: n, RHS: rapid.OneOf(rapid.IntRange(1, 8), rapid.IntRange(1, 8), rapid.IntRange(250, 600)).Draw(rt, "rhs"),
			Seed: rapid.Uint64Range(1, 1<<48).Draw(rt, "seed"), Param: rapid.IntRange(0, 1000).Draw(rt, "param")}
		if !do(c) {
			rt.Fatalf("matrix check failed")
		}
	})
}
