package c11

import (
	"fmt"
	"testing"

	"pgregory.net/rapid"
	"verifharness/ref/run"
)

// Coverage-guided stage: small matrices drawn element by element (values biased to 0, 1 and repeats, so that zero
// pivots, row swaps, identity blocks and rank drops are frequent), with a right-hand side of 1..8 or 250..600 columns.
func matrixProp(rt *rapid.T) run.RapidVerdict {
	n := rapid.IntRange(1, 7).Draw(rt, "n")
	el := rapid.SliceOfN(rapid.OneOf(rapid.Uint16Range(0, 2), rapid.Uint16Range(0, 2), rapid.Uint16()), n*n, n*n).Draw(rt, "elems")
	c := Case{Family: "explicit", N: n, RHS: rapid.OneOf(rapid.IntRange(1, 8), rapid.IntRange(250, 600)).Draw(rt, "rhs"), Seed: rapid.Uint64Range(1, 1<<20).Draw(rt, "seed"), Elems: el}
	msg, inf := check(c)
	if msg != "" {
		msg = fmt.Sprintf("family=%s n=%d seed=%d: %s", c.Family, c.N, c.Seed, msg)
	}
	cl := "regular"
	if inf.singular {
		cl = "singular"
	} else if inf.swaps > 0 {
		cl = "needs-row-swap"
	}
	return run.RapidVerdict{Case: c, Kind: "matrix", Msg: msg, Class: cl, NonTrivial: n >= 2 && (inf.singular || inf.swaps > 0)}
}

var fuzzProps = map[string]func(*rapid.T) run.RapidVerdict{"FuzzMatrix": matrixProp}

func FuzzMatrix(f *testing.F) { run.FuzzRapid(f, "C11", matrixProp) }
