// C08: GF(2^16) and GF(2)[x] arithmetic is the arithmetic of the PAR2 field.
package c08

import (
	"fmt"
	"math/bits"
	"sync"
	"testing"
	"time"

	"github.com/akalin/gopar/gf2"
	"github.com/akalin/gopar/gf2p16"
	"pgregory.net/rapid"
	"verifharness/ref/gf16"
	"verifharness/ref/run"
)

// Case is one replayable evaluation.
type Case struct {
	Op string `json:"op"` // times_row, div_row, inv, pow, poly_times, poly_div
	A  uint64 `json:"a"`
	B  uint64 `json:"b"`
}

// refPolyMul128 is the full carry-less product of two 64-bit polynomials (hi, lo).
func refPolyMul128(a, b uint64) (hi, lo uint64) {
	for i := 0; i < 64; i++ {
		if a&(1<<uint(i)) != 0 {
			lo ^= b << uint(i)
			if i > 0 {
				hi ^= b >> uint(64-i)
			}
		}
	}
	return
}

func deg(x uint64) int { return bits.Len64(x) - 1 } // -1 for 0

func check(c Case) string {
	switch c.Op {
	case "times_row":
		// all 65536 products c*x
		k := uint16(c.A)
		tab := gf16.MulTable(k)
		for x := 0; x < 65536; x++ {
			got := uint16(gf2p16.T(k).Times(gf2p16.T(x)))
			if got != tab[x] {
				return fmt.Sprintf("Times(%#x,%#x)=%#x, reference %#x", k, x, got, tab[x])
			}
			got2 := uint16(gf2p16.T(x).Times(gf2p16.T(k)))
			if got2 != tab[x] {
				return fmt.Sprintf("Times(%#x,%#x)=%#x, reference %#x", x, k, got2, tab[x])
			}
		}
		// cross-check the linear table itself against the bit-serial product on a few points
		for _, x := range []uint16{1, 2, 3, 0x8000, 0xffff, 0x1234, k} {
			if tab[x] != gf16.Mul(k, x) {
				return "harness error: reference table disagrees with bit-serial product"
			}
		}
	case "div_row":
		// all 65536 quotients a/b for fixed b
		b := uint16(c.A)
		if b == 0 {
			p, _ := run.Safe(func() { gf2p16.T(5).Div(0) })
			if !p {
				return "Div by zero did not panic (documented to panic)"
			}
			p, _ = run.Safe(func() { gf2p16.T(0).Inverse() })
			if !p {
				return "Inverse of zero did not panic (documented to panic)"
			}
			p, _ = run.Safe(func() { gf2p16.T(0).Div(0) })
			if !p {
				return "Div(0, 0) did not panic (Div is documented to panic when the divisor is zero)"
			}
			return ""
		}
		inv := gf16.Inv(b)
		if gf16.Mul(b, inv) != 1 {
			return "harness error: reference inverse wrong"
		}
		if got := uint16(gf2p16.T(b).Inverse()); got != inv {
			return fmt.Sprintf("Inverse(%#x)=%#x, reference %#x", b, got, inv)
		}
		tab := gf16.MulTable(inv)
		for a := 0; a < 65536; a++ {
			got := uint16(gf2p16.T(a).Div(gf2p16.T(b)))
			if got != tab[a] {
				return fmt.Sprintf("Div(%#x,%#x)=%#x, reference %#x", a, b, got, tab[a])
			}
		}
	case "pow":
		a, p := uint16(c.A), uint32(c.B)
		got := uint16(gf2p16.T(a).Pow(p))
		want := gf16.Pow(a, uint64(p))
		if got != want {
			return fmt.Sprintf("Pow(%#x,%d)=%#x, reference %#x", a, p, got, want)
		}
	case "first_inverse", "first_div", "first_pow", "first_matinv", "first_slice", "first_times":
		// meant to be the first field operation of the process (see TestCheck): no operation may depend on an earlier one
		a := uint16(c.A)
		switch c.Op {
		case "first_inverse":
			if got := uint16(gf2p16.T(a).Inverse()); got != gf16.Inv(a) {
				return fmt.Sprintf("as the first field operation of a process: Inverse(%#x)=%#x, reference %#x", a, got, gf16.Inv(a))
			}
		case "first_div":
			if got := uint16(gf2p16.T(1).Div(gf2p16.T(a))); got != gf16.Inv(a) {
				return fmt.Sprintf("as the first field operation of a process: Div(1,%#x)=%#x, reference %#x", a, got, gf16.Inv(a))
			}
		case "first_pow":
			if got := uint16(gf2p16.T(a).Pow(65534)); got != gf16.Inv(a) {
				return fmt.Sprintf("as the first field operation of a process: Pow(%#x,65534)=%#x, reference %#x", a, got, gf16.Inv(a))
			}
		case "first_times":
			if got := uint16(gf2p16.T(a).Times(gf2p16.T(a))); got != gf16.Mul(a, a) {
				return fmt.Sprintf("as the first field operation of a process: Times(%#x,%#x)=%#x, reference %#x", a, a, got, gf16.Mul(a, a))
			}
		case "first_matinv":
			m := gf2p16.NewMatrixFromSlice(2, 2, []gf2p16.T{gf2p16.T(a), 1, 0, 1})
			inv, err := m.Inverse()
			if err != nil {
				return "as the first field operation of a process: Inverse of a regular 2x2 matrix failed: " + err.Error()
			}
			if got := uint16(inv.At(0, 0)); got != gf16.Inv(a) {
				return fmt.Sprintf("as the first field operation of a process: matrix Inverse gives %#x at (0,0), reference %#x", got, gf16.Inv(a))
			}
		case "first_slice":
			in := []byte{byte(a), byte(a >> 8), 1, 0}
			out := make([]byte, 4)
			gf2p16.MulByteSliceLE(gf2p16.T(a), in, out)
			want := gf16.Mul(a, a)
			if out[0] != byte(want) || out[1] != byte(want>>8) || out[2] != byte(a) || out[3] != byte(a>>8) {
				return fmt.Sprintf("as the first field operation of a process: MulByteSliceLE(%#x) gives % x", a, out)
			}
		}
	case "concurrent":
		// the operations are pure functions: calls that overlap in time (eight goroutines, different exponents / divisors) give
		// the same values as calls made alone
		var wg sync.WaitGroup
		msgs := make([]string, 8)
		for g := 0; g < 8; g++ {
			wg.Add(1)
			go func(g int) {
				defer wg.Done()
				s := c.A + uint64(g)*0x9E3779B97F4A7C15 | 1
				var runP uint32
				var runD uint64
				for i := uint64(0); i < c.B && msgs[g] == ""; i++ {
					s ^= s << 13
					s ^= s >> 7
					s ^= s << 17
					// the exponent (and the divisor below) stays the same for a run of calls, as when a matrix row is filled
					if i%64 == 0 {
						runP, runD = uint32(s>>7)|0x10000, (s>>29)|1
					}
					a, p := uint16(s>>40)|1, runP
					if got := uint16(gf2p16.T(a).Pow(p)); got != gf16.FPow(a, uint64(p)) {
						msgs[g] = fmt.Sprintf("with 8 goroutines calling Pow at the same time: Pow(%#x,%d)=%#x, reference %#x", a, p, got, gf16.FPow(a, uint64(p)))
					}
					pp, d := s|1<<63, runD
					q, r := gf2.Poly64(pp).Div(gf2.Poly64(d))
					_, lo := refPolyMul128(uint64(q), d)
					if lo^uint64(r) != pp || (r != 0 && bits.Len64(uint64(r)) >= bits.Len64(d)) {
						msgs[g] = fmt.Sprintf("with 8 goroutines calling Div at the same time: Poly64(%#x).Div(%#x) = (%#x, %#x) violates q*d+r=p or deg r < deg d", pp, d, uint64(q), uint64(r))
					}
				}
			}(g)
		}
		done := make(chan struct{})
		go func() { wg.Wait(); close(done) }()
		select {
		case <-done:
		case <-time.After(120 * time.Second):
			return "with 8 goroutines calling Pow and Div at the same time the calls did not return within two minutes"
		}
		for _, m := range msgs {
			if m != "" {
				return m
			}
		}
	case "pow_sweep":
		// c.B pseudo-random (base, exponent) pairs from the seed c.A, compared with the table-driven reference power
		// (which reduces the exponent before multiplying); a mismatch is confirmed with the bit-serial reference
		s := c.A | 1
		for i := uint64(0); i < c.B; i++ {
			s ^= s << 13
			s ^= s >> 7
			s ^= s << 17
			a, p := uint16(s>>40), uint32(s)
			if a > 1 && p > 1 {
				sweepNonTrivial++
			}
			if i%4 == 1 && a != 0 {
				// exponents for which log(a)*p has 16-bit digits at the carry boundaries
				digs := [4]uint64{0, 1, 0xfffe, 0xffff}
				x := digs[(s>>33)&3]<<32 | digs[(s>>35)&3]<<16 | (s>>48)&0xffff
				if l := uint64(gf16.Log(a)); l != 0 && x/l <= 1<<32-1 {
					p = uint32(x / l)
				}
			}
			if got := uint16(gf2p16.T(a).Pow(p)); got != gf16.FPow(a, uint64(p)) {
				return fmt.Sprintf("Pow(%#x,%d)=%#x, reference %#x (pair %d of the sweep)", a, p, got, gf16.Pow(a, uint64(p)), i)
			}
		}
	case "poly_times":
		_, lo := refPolyMul128(c.A, c.B)
		got := uint64(gf2.Poly64(c.A).Times(gf2.Poly64(c.B)))
		if got != lo {
			return fmt.Sprintf("Poly64(%#x).Times(%#x)=%#x, reference (mod x^64) %#x", c.A, c.B, got, lo)
		}
	case "poly_div":
		if c.B == 0 {
			p, _ := run.Safe(func() { gf2.Poly64(c.A).Div(0) })
			if !p {
				return "Poly64.Div by zero did not panic (documented)"
			}
			return ""
		}
		var q, r gf2.Poly64
		if p, msg := run.Safe(func() { q, r = gf2.Poly64(c.A).Div(gf2.Poly64(c.B)) }); p {
			return "Poly64.Div panicked: " + msg
		}
		hi, lo := refPolyMul128(uint64(q), c.B)
		if hi != 0 || lo^uint64(r) != c.A {
			return fmt.Sprintf("Poly64(%#x).Div(%#x) = (q=%#x, r=%#x): q*d+r != p", c.A, c.B, uint64(q), uint64(r))
		}
		if deg(uint64(r)) >= deg(c.B) {
			return fmt.Sprintf("Poly64(%#x).Div(%#x): deg r (%d) >= deg d (%d)", c.A, c.B, deg(uint64(r)), deg(c.B))
		}
	default:
		return "unknown op " + c.Op
	}
	return ""
}

var specials16 = []uint16{0, 1, 2, 3, 4, 0xff, 0x100, 0x100b & 0xffff, 0x8000, 0x8001, 0xfffe, 0xffff, 0x1234, 0xabcd}

func expClasses(draw func(lo, hi uint32) uint32) []uint32 {
	var e []uint32
	for i := uint32(0); i <= 40; i++ {
		e = append(e, i)
	}
	e = append(e, 65533, 65534, 65535, 65536, 65537, 2*65535-1, 2*65535, 2*65535+1, 65535*65535-1, 65535*65535, 65535*65535+1,
		1<<16, 1<<17, 3<<16, 1<<31, 1<<31-1, 1<<31+1, 1<<32-1, 1<<32-2, 65535*65537-1, 65535*65537) // 65535*65537 = 2^32-1
	for k := uint32(3); k < 65537; k += 6553 {
		e = append(e, k*65535-1, k*65535, k*65535+1)
	}
	if draw != nil {
		for i := 0; i < 8; i++ {
			e = append(e, draw(0, 1<<32-1))
		}
	}
	return e
}

func structured64(i int) uint64 {
	switch {
	case i < 64:
		return 1 << uint(i)
	case i < 128:
		return (1 << uint(i-64)) - 1
	case i < 192:
		return ^uint64(0) << uint(i-128)
	case i == 192:
		return 0
	case i == 193:
		return 0x1100b
	case i == 194:
		return 0x11d
	default:
		return ^uint64(0)
	}
}

var sweepNonTrivial uint64

func TestCheck(t *testing.T) {
	cfg := run.Load("C08")
	rec := run.NewRec(cfg)
	defer rec.Finish(t)

	do := func(c Case, weight uint64, nontrivial bool) bool {
		rec.EvalN(weight)
		rec.Class(c.Op)
		if msg := check(c); msg != "" {
			rec.Fail(c.Op, c, "", msg)
			return false
		}
		if nontrivial {
			rec.NonTrivial(c)
		}
		return true
	}

	if cfg.Replay != "" {
		var c Case
		if _, err := run.LoadReplay(cfg.Replay, &c); err != nil {
			t.Fatal(err)
		}
		do(c, 1, false)
		return
	}
	// the first field operation of this process differs from shard to shard
	{
		ops := []string{"first_inverse", "first_div", "first_pow", "first_matinv", "first_slice", "first_times"}
		rec.Class("first-operation-of-the-process")
		do(Case{Op: ops[cfg.Shard%len(ops)], A: uint64(0x1234 + 77*cfg.Shard)}, 1, true)
	}
	for _, f := range cfg.RegressFiles() {
		var c Case
		if _, err := run.LoadReplay(f, &c); err == nil && cfg.Shard == 0 {
			do(c, 1, false)
		}
	}

	// --- Times / Div rows -------------------------------------------------
	if cfg.Thorough() {
		// exhaustive: every constant, every operand, both argument orders
		for c := 0; c < 65536; c++ {
			if !cfg.Mine(c) {
				continue
			}
			if !do(Case{Op: "times_row", A: uint64(c)}, 2*65536, false) || !do(Case{Op: "div_row", A: uint64(c)}, 65536, false) {
				break
			}
			if c > 1 {
				rec.AddDistinct(2 * 65534) // pairs with both operands not in {0,1}, times and div
			}
		}
		rec.SetExtra("exhaustive", true)
		rec.SetExtra("exhaustive_note", "all 2^32 operand pairs of Times (both argument orders) and Div, all 65536 inverses; Pow: all bases x exponent classes")
	} else {
		for i, s := range specials16 {
			if cfg.Mine(i) {
				do(Case{Op: "times_row", A: uint64(s)}, 2*65536, s > 1)
				do(Case{Op: "div_row", A: uint64(s)}, 65536, s > 1)
			}
		}
		cfg.SetRapid(64, 1)
		rapid.Check(t, func(rt *rapid.T) {
			c := rapid.Uint16().Draw(rt, "c")
			if !do(Case{Op: "times_row", A: uint64(c)}, 2*65536, c > 1) {
				rt.Fatalf("times row %#x", c)
			}
			if !do(Case{Op: "div_row", A: uint64(c)}, 65536, c > 1) {
				rt.Fatalf("div row %#x", c)
			}
		})
		// full inverse table in quick as well: a*inv(a)=1 for every a != 0 (split over shards)
		for a := 1; a < 65536; a++ {
			if !cfg.Mine(a) {
				continue
			}
			rec.Eval()
			inv := uint16(gf2p16.T(a).Inverse())
			if gf16.Mul(uint16(a), inv) != 1 {
				rec.Fail("inv", Case{Op: "div_row", A: uint64(a)}, "", fmt.Sprintf("a*Inverse(a) != 1 for a=%#x (Inverse=%#x)", a, inv))
				break
			}
		}
		rec.ClassN("inverse_all", 1)
	}

	// --- Pow ---------------------------------------------------------------
	if cfg.Thorough() {
		exps := expClasses(nil)
		for a := 0; a < 65536; a++ {
			if !cfg.Mine(a) {
				continue
			}
			ok := true
			for _, p := range exps {
				if !do(Case{Op: "pow", A: uint64(a), B: uint64(p)}, 1, false) {
					ok = false
					break
				}
			}
			if !ok {
				break
			}
			if a > 1 {
				rec.AddDistinct(uint64(len(exps)))
			}
		}
	}
	cfg.SetRapid(cfg.N(3000, 30000), 2)
	rapid.Check(t, func(rt *rapid.T) {
		a := rapid.OneOf(rapid.SampledFrom(specials16), rapid.Uint16()).Draw(rt, "a")
		var p uint32
		switch rapid.IntRange(0, 3).Draw(rt, "pclass") {
		case 0:
			p = rapid.Uint32Range(0, 50).Draw(rt, "p")
		case 1:
			k := rapid.Uint32Range(0, 65537).Draw(rt, "k")
			d := rapid.Uint32Range(0, 4).Draw(rt, "d")
			p = k*65535 + d - 2
		case 2:
			p = rapid.SampledFrom(expClasses(nil)).Draw(rt, "p")
		default:
			p = rapid.Uint32().Draw(rt, "p")
		}
		c := Case{Op: "pow", A: uint64(a), B: uint64(p)}
		if !do(c, 1, a > 1 && p > 1) {
			rt.Fatalf("pow")
		}
	})

	// the same operations from eight goroutines at once
	{
		rec.Class("overlapping-calls")
		n := uint64(cfg.N(100000, 1500000))
		do(Case{Op: "concurrent", A: cfg.RapidSeed(78) * 0x9E3779B97F4A7C15, B: n}, 8*n, false)
	}
	// a bulk sweep over pseudo-random (base, exponent) pairs, a quarter of them with exponents at digit-carry boundaries
	{
		n := uint64(cfg.N(4000000, 100000000))
		rec.Class("pow-sweep-pairs")
		sweepNonTrivial = 0
		if do(Case{Op: "pow_sweep", A: cfg.RapidSeed(77) * 0x9E3779B97F4A7C15, B: n}, n, false) {
			// counted draws with base > 1 and exponent > 1; draws come from a 2^48 space, so repeats within one run are negligible (rule text says so)
			rec.AddDistinct(sweepNonTrivial)
		}
	}

	// --- Poly64 ------------------------------------------------------------
	nstruct := 196
	idx := 0
	for i := 0; i < nstruct; i++ {
		for j := 0; j < nstruct; j++ {
			idx++
			if !cfg.Mine(idx) {
				continue
			}
			a, b := structured64(i), structured64(j)
			do(Case{Op: "poly_times", A: a, B: b}, 1, a > 1 && b > 1)
			do(Case{Op: "poly_div", A: a, B: b}, 1, a > 1 && b > 1)
		}
	}
	cfg.SetRapid(cfg.N(30000, 300000), 3)
	gen64 := rapid.Custom(func(rt *rapid.T) uint64 {
		switch rapid.IntRange(0, 3).Draw(rt, "k") {
		case 0:
			return structured64(rapid.IntRange(0, 195).Draw(rt, "s"))
		case 1:
			return rapid.Uint64().Draw(rt, "v") >> uint(rapid.IntRange(0, 63).Draw(rt, "sh"))
		case 2:
			return rapid.Uint64Range(0, 70000).Draw(rt, "small")
		default:
			return rapid.Uint64().Draw(rt, "v")
		}
	})
	rapid.Check(t, func(rt *rapid.T) {
		a, b := gen64.Draw(rt, "a"), gen64.Draw(rt, "b")
		if !do(Case{Op: "poly_times", A: a, B: b}, 1, a > 1 && b > 1) {
			rt.Fatalf("poly_times")
		}
		if !do(Case{Op: "poly_div", A: a, B: b}, 1, a > 1 && b > 1) {
			rt.Fatalf("poly_div")
		}
	})
}
