package c03

import (
	"fmt"
	"os"
	"path/filepath"
	"testing"

	"github.com/akalin/gopar/par2"
	"verifharness/ref/run"
	"verifharness/ref/scen"
)

// A set that belongs to another user but is readable (a shared archive): Verify run by a user who neither owns the
// files nor has privileges must still count the truth.  The worker runs as uid 65534 on files owned by root.

func TestForeignOwnerWorker(t *testing.T) {
	idx := os.Getenv("VERIF_FO_INDEX")
	if idx == "" {
		t.Skip("worker entry point")
	}
	res, err := par2.Verify(idx, par2.VerifyOptions{NumGoroutines: 2})
	e := ""
	if err != nil {
		e = err.Error()
	}
	sc := res.ShardCounts
	fmt.Printf("\nREPLY err=%q usable=%d unusable=%d blocks=%d needed=%v\n", e, sc.UsableDataShardCount, sc.UnusableDataShardCount, sc.UsableParityShardCount, sc.RepairNeeded())
}

func foreignOwnerCase(k int) (msg string, ran bool) {
	root := run.Scratch("c03fo")
	defer os.RemoveAll(root)
	os.Chmod(root, 0o755)
	dir := filepath.Join(root, "shared")
	os.MkdirAll(filepath.Join(dir, "sub"), 0o755)
	var paths []string
	slices := 0
	first := 0
	for i, n := range []string{"f0.dat", "sub/f1.dat", "f2.dat"} {
		f := scen.FileSpec{Name: n, Size: 100 + 20000*((i+k)%2), Kind: "random", Seed: uint64(10*k + i)}
		p := filepath.Join(dir, n)
		os.WriteFile(p, f.Content(64), 0o644)
		paths = append(paths, p)
		slices += (f.Size + 63) / 64
		if i == 0 {
			first = (f.Size + 63) / 64
		}
	}
	idx := filepath.Join(dir, "set.par2")
	if err := par2.Create(idx, paths, par2.CreateOptions{SliceByteCount: 64, NumParityShards: 3, NumGoroutines: 2}); err != nil {
		return "harness: Create failed: " + err.Error(), true
	}
	filepath.Walk(dir, func(p string, info os.FileInfo, err error) error {
		if err == nil && !info.IsDir() {
			os.Chmod(p, 0o644)
		}
		return nil
	})
	want := fmt.Sprintf(`err="" usable=%d unusable=0 blocks=3 needed=false`, slices)
	if k%2 == 1 {
		os.Remove(paths[0])
		want = fmt.Sprintf(`err="" usable=%d unusable=%d blocks=3 needed=true`, slices-first, first)
	}
	reply, ok := run.RunTestAs(65534, "TestForeignOwnerWorker", "VERIF_FO_INDEX="+idx)
	if !ok {
		return "", false
	}
	if reply != want {
		return fmt.Sprintf("Verify of a readable set owned by another user, run without privileges, reports %s; truth: %s", reply, want), true
	}
	return "", true
}
