package c03

import (
	"testing"

	"pgregory.net/rapid"
	"verifharness/ref/run"
)

// Coverage-guided stage: the scenario generator of TestCheck driven by the fuzzing engine's bytes.
func scenProp(rt *rapid.T) run.RapidVerdict {
	c := gen(rt)
	v := check(c)
	cl := "intact"
	if v.damaged {
		cl = "damaged"
	}
	return run.RapidVerdict{Case: c, Kind: "verify", Msg: v.msg, Key: v.key, Class: cl, NonTrivial: v.damaged}
}

var fuzzProps = map[string]func(*rapid.T) run.RapidVerdict{"FuzzScenario": scenProp}

func FuzzScenario(f *testing.F) { run.FuzzRapid(f, "C03", scenProp) }
