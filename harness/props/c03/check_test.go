// C03: PAR2 Verify is truthful: clean means intact, counts are sound and complete.
package c03

import (
	"strings"
	"encoding/binary"
	"fmt"
	"os"
	"path/filepath"
	"testing"

	"github.com/akalin/gopar/par2"
	"pgregory.net/rapid"
	"verifharness/ref/model"
	"verifharness/ref/run"
	"verifharness/ref/scen"
)

type verdict struct {
	msg, key  string
	damaged   bool
	findable  bool // every slice locatable but some file wrong
	ambiguous bool
}

func distinct(a []int) int {
	m := map[int]bool{}
	for _, x := range a {
		m[x] = true
	}
	return len(m)
}

func check(c scen.Case) verdict {
	var v verdict
	o := scen.Run(c, true)
	defer o.Close()
	if o.CreatePan != "" || o.CreateErr != nil {
		v.msg = fmt.Sprintf("Create failed on a valid input set: %v %s", o.CreateErr, o.CreatePan)
		return v
	}
	if o.VerifyPan != "" {
		v.msg = "Verify panicked: " + o.VerifyPan
		return v
	}
	if o.VerifyErr != nil {
		v.msg = fmt.Sprintf("Verify returned an error (%v) for a set whose index and remaining recovery files are intact", o.VerifyErr)
		return v
	}
	sc := o.VerifyRes.ShardCounts
	loc := o.Loc
	v.ambiguous = loc.Ambiguous
	allOK, why := o.AllOriginal(o.PreVerify)
	v.damaged = !allOK
	v.findable = !allOK && loc.NMust == loc.NSlices
	// (b) counts sound and complete
	if sc.UsableDataShardCount+sc.UnusableDataShardCount != loc.NSlices {
		v.msg = fmt.Sprintf("usable %d + unusable %d != %d protected slices", sc.UsableDataShardCount, sc.UnusableDataShardCount, loc.NSlices)
		return v
	}
	if sc.UsableDataShardCount > loc.NMay {
		v.msg = fmt.Sprintf("Verify counts %d usable slices but only %d slice contents exist in the surviving protected files", sc.UsableDataShardCount, loc.NMay)
		return v
	}
	if sc.UsableDataShardCount < loc.NMust {
		v.msg = fmt.Sprintf("Verify counts %d usable slices but %d slices are present (undamaged files / isolated occurrences)", sc.UsableDataShardCount, loc.NMust)
		return v
	}
	// (c) usable recovery blocks = distinct intact blocks stored beside the index file
	if want := distinct(o.SurvExps); sc.UsableParityShardCount != want {
		v.msg = fmt.Sprintf("UsableParityShardCount=%d but the reference reader finds %d distinct intact recovery blocks beside the index file", sc.UsableParityShardCount, want)
		return v
	}
	// (d) possible <=> unusable <= usable recovery blocks
	if sc.RepairPossible() != (sc.UnusableDataShardCount <= sc.UsableParityShardCount) {
		v.msg = fmt.Sprintf("RepairPossible()=%v with %d unusable slices and %d usable recovery blocks", sc.RepairPossible(), sc.UnusableDataShardCount, sc.UsableParityShardCount)
		return v
	}
	if !loc.Ambiguous {
		k := len(model.Missing(loc.May))
		if sc.RepairPossible() != (k <= distinct(o.SurvExps)) {
			v.msg = fmt.Sprintf("RepairPossible()=%v but the model has %d unusable slices and %d recovery blocks", sc.RepairPossible(), k, distinct(o.SurvExps))
			return v
		}
	}
	// (a) clean verdict only if every protected file is intact
	if !sc.RepairNeeded() && !allOK {
		v.msg = "Verify reports that no repair is needed but " + why
		if loc.NMust == loc.NSlices {
			v.key = "D7-verdict-from-slice-counts-only"
		}
		return v
	}
	if len(o.VerifyDiff) > 0 {
		v.msg = "Verify modified the directory: " + fmt.Sprint(o.VerifyDiff)
	}
	return v
}

// damage ops weighted towards "all slices findable but files wrong"
var ops = []string{"insert", "insert", "swap", "copy", "move", "trimzeros", "append", "appendzeros", "remove", "overwrite", "flip", "delete", "truncate", "crcforge", "crcforge"}

func gen(t *rapid.T) scen.Case {
	S := scen.GenSlice(t)
	maxSlices := 100
	if S >= 1024 {
		maxSlices = 20
	}
	c := scen.Case{Slice: S}
	c.Files = scen.GenFiles(t, S, 5, 40000, maxSlices)
	c.NRec = rapid.IntRange(1, 9).Draw(t, "nrec")
	c.GCreate = rapid.SampledFrom([]int{1, 2, 4}).Draw(t, "gc")
	c.GRepair = rapid.SampledFrom([]int{1, 3, 8}).Draw(t, "gr")
	nd := rapid.IntRange(0, 3).Draw(t, "ndamage")
	ml := scen.MaxLen(c.Files)
	for i := 0; i < nd; i++ {
		d := scen.GenDamage(t, len(c.Files), ml, S, ops)
		if d.Op == "insert" {
			switch rapid.IntRange(0, 3).Draw(t, "inspos") {
			case 0:
				d.Off = 0
			case 1:
				d.Off = 1 << 30 // clamped to the end of file
			}
		}
		c.Damage = append(c.Damage, d)
	}
	if rapid.IntRange(0, 2).Draw(t, "delvol") == 0 {
		c.DelVolumes = rapid.SliceOfN(rapid.IntRange(0, 7), 1, 4).Draw(t, "delvols")
	}
	c.Bystanders = rapid.Bool().Draw(t, "by")
	c.ForeignVol = rapid.IntRange(0, 3).Draw(t, "foreign") == 0
	c.DupVol = rapid.IntRange(0, 3).Draw(t, "dup") == 0
	c.DirName = rapid.SampledFrom(scen.DirNames).Draw(t, "dirname")
	c.Index = rapid.SampledFrom(scen.IndexNames).Draw(t, "index")
	c.HighExpVol = rapid.IntRange(0, 5).Draw(t, "highexp") == 0
	c.SymlinkVols = rapid.IntRange(0, 5).Draw(t, "symlink") == 0
	if rapid.IntRange(0, 4).Draw(t, "stale") == 0 {
		c.StaleNRec = rapid.IntRange(1, 9).Draw(t, "stalenrec")
	}
	return c
}

// bigFileCase: a protected file larger than 4 GiB (single read()/write() calls are capped at about 1-2 GiB by the OS and the
// Go runtime; offsets and lengths no longer fit into 32 bits).
func bigFileCase() string {
	root := run.Scratch("c03big")
	defer os.RemoveAll(root)
	size := 1<<32 + 4096
	data := make([]byte, size)
	for o := 0; o < size; o += 1 << 20 {
		binary.LittleEndian.PutUint64(data[o:], uint64(o)+0x1122334455)
	}
	p := filepath.Join(root, "big.bin")
	if err := os.WriteFile(p, data, 0o644); err != nil {
		return "" // not enough scratch space: skip silently (thorough tier only)
	}
	idx := filepath.Join(root, "set.par2")
	if err := par2.Create(idx, []string{p}, par2.CreateOptions{SliceByteCount: 128 << 20, NumParityShards: 1, NumGoroutines: 8}); err != nil {
		return "Create failed on a file above 4 GiB: " + err.Error()
	}
	r, err := par2.Verify(idx, par2.VerifyOptions{NumGoroutines: 8})
	if err != nil {
		return "Verify failed on an untouched file above 4 GiB: " + err.Error()
	}
	if r.ShardCounts.UsableDataShardCount != 33 || r.ShardCounts.UnusableDataShardCount != 0 || r.ShardCounts.RepairNeeded() {
		return fmt.Sprintf("untouched 4 GiB + 4 KiB file: Verify counts %+v, want 33 usable / 0 unusable and no repair needed", r.ShardCounts)
	}
	// damage beyond the first 4 GiB must be noticed
	f, _ := os.OpenFile(p, os.O_WRONLY, 0)
	f.WriteAt([]byte{0xff}, 1<<32+100)
	f.Close()
	r, err = par2.Verify(idx, par2.VerifyOptions{NumGoroutines: 8})
	if err != nil {
		return "Verify failed: " + err.Error()
	}
	if r.ShardCounts.UnusableDataShardCount != 1 || !r.ShardCounts.RepairNeeded() {
		return fmt.Sprintf("one byte changed beyond the first 4 GiB: Verify counts %+v, want exactly 1 unusable slice", r.ShardCounts)
	}
	return ""
}

// reverifyCase: Verify is truthful each time it is called, also when a file's bytes change between two calls in one process
// while its size, modification time and inode stay the same (bit rot; tools that restore time stamps).
func reverifyCase(k int) string {
	root := run.Scratch("c03rv")
	defer os.RemoveAll(root)
	a := (scen.FileSpec{Name: "a", Size: 300 + 20000*(k%2), Kind: "random", Seed: uint64(40 + k)}).Content(64)
	b := (scen.FileSpec{Name: "b", Size: 77, Kind: "random", Seed: uint64(50 + k)}).Content(64)
	pa, pb := filepath.Join(root, "a.dat"), filepath.Join(root, "sub", "b.bin")
	os.MkdirAll(filepath.Join(root, "sub"), 0o755)
	os.WriteFile(pa, a, 0o644)
	os.WriteFile(pb, b, 0o644)
	idx := filepath.Join(root, "set.par2")
	if err := par2.Create(idx, []string{pa, pb}, par2.CreateOptions{SliceByteCount: 64, NumParityShards: 3, NumGoroutines: 1}); err != nil {
		return "Create failed: " + err.Error()
	}
	verify := func() (bool, string) {
		r, err := par2.Verify(idx, par2.VerifyOptions{NumGoroutines: 1 + k%3})
		if err != nil {
			return false, "Verify failed: " + err.Error()
		}
		return r.ShardCounts.RepairNeeded(), ""
	}
	if need, msg := verify(); msg != "" || need {
		return "untouched set: " + msg + " (repair needed reported)"
	}
	for round, off := range []int{len(a) - 5, 3, len(a) / 2} {
		st, _ := os.Stat(pa)
		f, _ := os.OpenFile(pa, os.O_WRONLY, 0)
		f.WriteAt([]byte{a[off] ^ 0x10}, int64(off))
		f.Close()
		os.Chtimes(pa, st.ModTime(), st.ModTime())
		need, msg := verify()
		if msg != "" {
			return msg
		}
		if !need {
			return fmt.Sprintf("round %d: byte %d of a.dat was changed in place (same size, modification time and inode) after an earlier Verify in this process, and Verify reports that no repair is needed", round, off)
		}
		f, _ = os.OpenFile(pa, os.O_WRONLY, 0)
		f.WriteAt([]byte{a[off]}, int64(off))
		f.Close()
		os.Chtimes(pa, st.ModTime(), st.ModTime())
		if need, msg := verify(); msg != "" || need {
			return fmt.Sprintf("round %d: the byte was restored in place and Verify still reports damage (%s)", round, msg)
		}
	}
	return ""
}

func TestCheck(t *testing.T) {
	cfg := run.Load("C03")
	rec := run.NewRec(cfg)
	defer rec.Finish(t)

	do := func(c scen.Case) bool {
		rec.Eval()
		v := check(c)
		if v.findable {
			rec.Class("all-slices-findable-but-files-wrong")
		}
		if v.ambiguous {
			rec.Class("ambiguous")
		}
		if len(c.DelVolumes) > 0 {
			rec.Class("recovery-subset-lost")
		}
		if c.ForeignVol {
			rec.Class("foreign-volume")
		}
		if c.DupVol {
			rec.Class("duplicate-volume")
		}
		if c.SymlinkVols {
			rec.Class("symlinked-volumes")
		}
		if c.StaleNRec > 0 && c.StaleNRec != c.NRec {
			rec.Class("stale-overlapping-volumes")
		}
		for _, d := range c.Damage {
			rec.Class("damage=" + d.Op)
		}
		if v.msg != "" {
			return rec.Fail("verify", c, v.key, v.msg) == ""
		}
		if v.damaged {
			rec.NonTrivial(c)
		}
		return true
	}
	if cfg.Replay != "" {
		if rec.ReplayFuzzRapid(t, cfg.Replay, fuzzProps) {
			return
		}
		var c scen.Case
		if _, err := run.LoadReplay(cfg.Replay, &c); err != nil {
			t.Fatal(err)
		}
		// fixed scenarios (no parameters beyond their number) are recognised by their marker
		var k int
		switch {
		case strings.HasPrefix(c.Index, "file of 2^3"):
			rec.Eval()
			if msg := bigFileCase(); msg != "" {
				rec.Fail("bigfile", c, "", msg)
			}
			return
		case func() bool { n, _ := fmt.Sscanf(c.Index, "reverify scenario %d", &k); return n == 1 }():
			rec.Eval()
			if msg := reverifyCase(k); msg != "" {
				rec.Fail("reverify", c, "", msg)
			}
			return
		case func() bool { n, _ := fmt.Sscanf(c.Index, "foreign-owner scenario %d", &k); return n == 1 }():
			rec.Eval()
			if msg, _ := foreignOwnerCase(k); msg != "" {
				rec.Fail("foreign", c, "", msg)
			}
			return
		}
		do(c)
		return
	}
	for _, f := range cfg.RegressFiles() {
		var c scen.Case
		if _, err := run.LoadReplay(f, &c); err == nil && cfg.Shard == 0 {
			do(c)
		}
	}
	// two protected files that differ in six bits and have the same MD5 (published collision blocks): exchanged, or one turned into the other
	md5files := []scen.FileSpec{{Name: "a.bin", Size: 200, Kind: "md5a", Seed: 5}, {Name: "b.bin", Size: 200, Kind: "md5b", Seed: 5}, {Name: "c.bin", Size: 100, Kind: "random", Seed: 6}}
	for k, dmg := range [][]scen.Damage{{{Op: "swap", File: 0, Other: 1}}, {{Op: "md5twin", File: 0}}, {{Op: "md5twin", File: 1}}, {{Op: "md5twin", File: 0}, {Op: "md5twin", File: 1}}} {
		if cfg.Mine(60 + k) {
			rec.Class("md5-colliding-files")
			do(scen.Case{Slice: 128, NRec: 2, GCreate: 1, GRepair: 1 + k%2, Files: md5files, Damage: dmg})
			do(scen.Case{Slice: 64, NRec: 3, GCreate: 1, GRepair: 1, Files: md5files[:2], Damage: dmg, DelVolumes: []int{0, 1, 2, 3}})
		}
	}
	for k := 0; k < 4; k++ {
		if cfg.Mine(40 + k) {
			rec.Eval()
			rec.Class("reverify-after-in-place-change")
			if msg := reverifyCase(k); msg != "" {
				rec.Fail("reverify", scen.Case{Index: fmt.Sprintf("reverify scenario %d (fixed case)", k)}, "", msg)
			}
		}
	}
	for k := 0; k < 2; k++ {
		if !cfg.Mine(50 + k) {
			continue
		}
		rec.Eval()
		if msg, ran := foreignOwnerCase(k); !ran {
			rec.Class("foreign-owner-case-skipped(no privileges to drop)")
		} else {
			rec.Class("verify-as-non-owner")
			if msg != "" {
				rec.Fail("foreign", scen.Case{Index: fmt.Sprintf("foreign-owner scenario %d (fixed case)", k)}, "", msg)
			}
		}
	}
	if cfg.Thorough() && cfg.Shard == 3%cfg.NShards {
		rec.Eval()
		rec.Class("file>4GiB")
		if msg := bigFileCase(); msg != "" {
			rec.Fail("bigfile", scen.Case{Index: "file of 2^32+4096 bytes, slice size 128 MiB (fixed case, no parameters)"}, "", msg)
		}
	}
	cfg.SetRapid(cfg.N(900, 12000), 1)
	rapid.Check(t, func(rt *rapid.T) {
		if !do(gen(rt)) {
			rt.Fatalf("C03 failed")
		}
	})
}
