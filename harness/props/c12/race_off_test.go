//go:build !race

package c12

const raceEnabled = false
