// C12: coding results do not depend on goroutine count or scheduling.
package c12

import (
	"bytes"
	"fmt"
	"os"
	"path/filepath"
	"runtime"
	"sort"
	"testing"

	"github.com/akalin/gopar/par2"
	"github.com/akalin/gopar/rsec16"
	"github.com/klauspost/cpuid/v2"
	"pgregory.net/rapid"
	"verifharness/ref/fsx"
	"verifharness/ref/gf16"
	"verifharness/ref/par2ref"
	"verifharness/ref/run"
)

// Case is one scenario.
type Case struct {
	Op      string `json:"op"` // gen | rec | api
	Coder   string `json:"coder"`
	D       int    `json:"d"`
	P       int    `json:"p"`
	Len     int    `json:"len"`
	G       int    `json:"g"`
	Procs   int    `json:"procs"`
	Odd     bool   `json:"odd,omitempty"`  // the input shards start at odd addresses (sub-slices of larger buffers)
	Topo    []int  `json:"topo,omitempty"` // api: reported CPU topology {physical cores, threads per core} while the case runs (both >= 1)
	MissD   []int  `json:"miss_d,omitempty"`
	KeepPar []int  `json:"keep_p,omitempty"` // if set: only these parity shards are supplied to ReconstructData
	Seed    uint64 `json:"seed"`
}

func xs(s *uint64) uint64 {
	x := *s
	x ^= x << 13
	x ^= x >> 7
	x ^= x << 17
	*s = x
	return x
}

var par2c = gf16.PAR2Constants(2048)

func coef(coder string, d, i, j int) uint16 {
	if coder == "cauchy" {
		return gf16.FInv(uint16(d+i) ^ uint16(j))
	}
	return gf16.FPow(par2c[j], uint64(i))
}

func refParity(c Case, data [][]byte) [][]byte {
	out := make([][]byte, c.P)
	keep := map[int]bool{}
	for _, k := range c.KeepPar {
		keep[k] = true
	}
	for i := range out {
		out[i] = make([]byte, c.Len)
		if c.KeepPar != nil && !keep[i] && i > 2 {
			out[i] = nil // not compared (large parity counts)
			continue
		}
		for j := 0; j < c.D; j++ {
			f := coef(c.Coder, c.D, i, j)
			for k := 0; k+1 < c.Len; k += 2 {
				v := gf16.FMul(f, uint16(data[j][k])|uint16(data[j][k+1])<<8)
				out[i][k] ^= byte(v)
				out[i][k+1] ^= byte(v >> 8)
			}
		}
	}
	return out
}

func newCoder(c Case, g int) rsec16.Coder {
	var cd rsec16.Coder
	var err error
	if c.Coder == "cauchy" {
		cd, err = rsec16.NewCoderCauchy(c.D, c.P, g)
	} else {
		cd, err = rsec16.NewCoderPAR2Vandermonde(c.D, c.P, g)
	}
	if err != nil {
		panic(err)
	}
	return cd
}

// checkLog verifies that, for every output shard, the logged write ranges are pairwise disjoint and cover [0,n).
func checkLog(log []rsec16.VerifWrite, nOut, n int) (string, int) {
	by := map[int][]rsec16.VerifWrite{}
	for _, w := range log {
		by[w.OutIndex] = append(by[w.OutIndex], w)
	}
	workers := 0
	for i := 0; i < nOut; i++ {
		ws := by[i]
		if len(ws) == 0 && n == 0 {
			continue // nothing to write
		}
		if len(ws) == 0 {
			return fmt.Sprintf("no write logged for output shard %d before the call returned", i), workers
		}
		sort.Slice(ws, func(a, b int) bool {
			return ws[a].Start < ws[b].Start || (ws[a].Start == ws[b].Start && ws[a].End < ws[b].End)
		})
		pos := 0
		for _, w := range ws {
			if w.Start < pos {
				return fmt.Sprintf("output shard %d: worker ranges overlap at byte %d (range [%d,%d))", i, w.Start, w.Start, w.End), workers
			}
			if w.Start > pos {
				return fmt.Sprintf("output shard %d: bytes [%d,%d) written by no worker before the call returned", i, pos, w.Start), workers
			}
			if w.End < w.Start || w.End > n {
				return fmt.Sprintf("output shard %d: bad range [%d,%d) for length %d", i, w.Start, w.End, n), workers
			}
			pos = w.End
		}
		if pos != n {
			return fmt.Sprintf("output shard %d: bytes [%d,%d) written by no worker before the call returned", i, pos, n), workers
		}
		if len(ws) > workers {
			workers = len(ws)
		}
	}
	return "", workers
}

func check(c Case) (string, int) {
	if c.Procs > 0 {
		old := runtime.GOMAXPROCS(c.Procs)
		defer runtime.GOMAXPROCS(old)
	}
	if c.Op == "api" {
		if len(c.Topo) == 2 && c.Topo[0] >= 1 && c.Topo[1] >= 1 {
			// the default goroutine count (option 0) is derived from GOMAXPROCS and the CPU topology that cpuid reports
			oldP, oldT, oldL := cpuid.CPU.PhysicalCores, cpuid.CPU.ThreadsPerCore, cpuid.CPU.LogicalCores
			cpuid.CPU.PhysicalCores, cpuid.CPU.ThreadsPerCore, cpuid.CPU.LogicalCores = c.Topo[0], c.Topo[1], c.Topo[0]*c.Topo[1]
			defer func() { cpuid.CPU.PhysicalCores, cpuid.CPU.ThreadsPerCore, cpuid.CPU.LogicalCores = oldP, oldT, oldL }()
		}
		if c.Coder == "badsurplus" {
			return checkBadSurplus(c), 2
		}
		return checkAPI(c), 2
	}
	s := c.Seed | 1
	data := make([][]byte, c.D)
	orig := make([][]byte, c.D)
	for j := range data {
		data[j] = make([]byte, c.Len)
		if c.Odd {
			// a slice found at an odd byte offset of a larger buffer (as the decoder hands over slices located in a shifted file)
			data[j] = make([]byte, c.Len+17)[1 : 1+c.Len : 1+c.Len]
		}
		for k := range data[j] {
			data[j][k] = byte(xs(&s) >> 9)
		}
		orig[j] = append([]byte{}, data[j]...)
	}
	single := newCoder(c, 1)
	multi := newCoder(c, c.G)
	var base, par [][]byte
	var log []rsec16.VerifWrite
	if p, msg := run.Safe(func() {
		base = single.GenerateParity(data)
		rsec16.VerifStartLog()
		par = multi.GenerateParity(data)
		log = rsec16.VerifStopLog()
	}); p {
		rsec16.VerifStopLog()
		return "GenerateParity panicked: " + msg, 0
	}
	workers := 0
	if c.Op == "gen" {
		m, w := checkLog(log, c.P, c.Len)
		workers = w
		if m != "" {
			return "GenerateParity: " + m, w
		}
	}
	ref := refParity(c, orig)
	for i := range par {
		if !bytes.Equal(par[i], base[i]) {
			return fmt.Sprintf("parity shard %d with %d goroutines differs from single-goroutine result", i, c.G), workers
		}
		if ref[i] != nil && !bytes.Equal(par[i], ref[i]) {
			return fmt.Sprintf("parity shard %d differs from the reference formula", i), workers
		}
	}
	for j := range data {
		if !bytes.Equal(data[j], orig[j]) {
			return fmt.Sprintf("GenerateParity modified input shard %d", j), workers
		}
	}
	if c.Op == "gen" {
		return "", workers
	}
	// reconstruction
	work := make([][]byte, c.D)
	miss := map[int]bool{}
	for _, m := range c.MissD {
		miss[m] = true
	}
	for j := range data {
		if !miss[j] {
			work[j] = data[j]
		}
	}
	if c.Odd {
		for i := range par {
			par[i] = append(make([]byte, 1, len(par[i])+1), par[i]...)[1:]
		}
	}
	parCopy := make([][]byte, len(par))
	for i := range par {
		parCopy[i] = append([]byte{}, par[i]...)
	}
	if c.KeepPar != nil {
		keep := map[int]bool{}
		for _, k := range c.KeepPar {
			keep[k] = true
		}
		for i := range par {
			if !keep[i] {
				par[i] = nil
			}
		}
	}
	var err error
	if p, msg := run.Safe(func() {
		rsec16.VerifStartLog()
		err = multi.ReconstructData(work, par)
		log = rsec16.VerifStopLog()
	}); p {
		rsec16.VerifStopLog()
		return "ReconstructData panicked: " + msg, 0
	}
	if err != nil {
		// singular PAR2 combinations are C07's business; with <= 8 data shards and low rows none is expected
		return fmt.Sprintf("ReconstructData failed: %v", err), 0
	}
	if len(miss) > 0 {
		m, w := checkLog(log, len(miss), c.Len)
		workers = w
		if m != "" {
			return "ReconstructData: " + m, w
		}
	}
	for j := range work {
		if !bytes.Equal(work[j], orig[j]) {
			return fmt.Sprintf("reconstructed shard %d with %d goroutines differs from the original", j, c.G), workers
		}
	}
	for i := range par {
		if par[i] != nil && !bytes.Equal(par[i], parCopy[i]) {
			return fmt.Sprintf("ReconstructData modified parity shard %d", i), workers
		}
	}
	return "", workers
}

// checkAPI: Create output and Repair results are identical for every value of the goroutine option.
func checkAPI(c Case) string {
	dir := run.Scratch("c12")
	defer os.RemoveAll(dir)
	s := c.Seed | 1
	files := map[string][]byte{}
	for i := 0; i < c.D; i++ {
		n := 1 + int(xs(&s)%uint64(3*c.Len+2))
		b := make([]byte, n)
		for k := range b {
			b[k] = byte(xs(&s) >> 11)
		}
		files[fmt.Sprintf("f%d.dat", i)] = b
	}
	slice := c.Len
	if slice%4 != 0 {
		slice += 4 - slice%4
	}
	if slice == 0 {
		slice = 4
	}
	outputs := func(g int) (map[string][]byte, string) {
		d := filepath.Join(dir, fmt.Sprintf("g%d", g))
		if err := fsx.WriteTree(d, files); err != nil {
			return nil, err.Error()
		}
		var names []string
		for n := range files {
			names = append(names, filepath.Join(d, n))
		}
		sort.Strings(names)
		var err error
		if p, msg := run.Safe(func() {
			err = par2.Create(filepath.Join(d, "set.par2"), names, par2.CreateOptions{SliceByteCount: slice, NumParityShards: c.P, NumGoroutines: g})
		}); p {
			return nil, "Create panicked: " + msg
		}
		if err != nil {
			return nil, "Create failed: " + err.Error()
		}
		snap, _ := fsx.Take(d)
		return snap.Files(), ""
	}
	base, msg := outputs(1)
	if msg != "" {
		return msg
	}
	got, msg := outputs(c.G)
	if msg != "" {
		return msg
	}
	for n, b := range base {
		if !bytes.Equal(got[n], b) {
			return fmt.Sprintf("Create with %d goroutines wrote different bytes for %s than with 1", c.G, n)
		}
	}
	if len(got) != len(base) {
		return "Create with different goroutine counts wrote a different set of files"
	}
	// damage the same way in both directories, repair with 1 and with G goroutines
	for _, g := range []int{1, c.G} {
		d := filepath.Join(dir, fmt.Sprintf("g%d", g))
		os.Remove(filepath.Join(d, "f0.dat"))
		var err error
		if p, msg := run.Safe(func() {
			_, err = par2.Repair(filepath.Join(d, "set.par2"), par2.RepairOptions{NumGoroutines: g, DoubleCheck: c.Seed%2 == 0})
		}); p {
			return "Repair panicked: " + msg
		}
		fileSlices := (len(files["f0.dat"]) + slice - 1) / slice
		if fileSlices <= c.P {
			if err != nil {
				return fmt.Sprintf("Repair with %d goroutines failed: %v", g, err)
			}
			b, _ := os.ReadFile(filepath.Join(d, "f0.dat"))
			if !bytes.Equal(b, files["f0.dat"]) {
				return fmt.Sprintf("Repair with %d goroutines restored wrong bytes", g)
			}
		} else if err == nil {
			return "Repair succeeded beyond capacity"
		}
	}
	return ""
}

// checkBadSurplus: a repair that has to fail (DoubleCheck finds a surplus recovery block whose data, though correctly
// checksummed, is inconsistent) leaves the same state behind for every value of the goroutine option.
func checkBadSurplus(c Case) string {
	dir := run.Scratch("c12")
	defer os.RemoveAll(dir)
	s := c.Seed | 1
	files := map[string][]byte{}
	for i := 0; i < 3; i++ {
		b := make([]byte, 40+int(xs(&s)%90))
		for k := range b {
			b[k] = byte(xs(&s) >> 11)
		}
		files[fmt.Sprintf("f%d.dat", i)] = b
	}
	const slice = 64
	state := func(g int) (map[string][]byte, string, string) {
		d := filepath.Join(dir, fmt.Sprintf("g%d", g))
		fsx.WriteTree(d, files)
		var names []string
		for n := range files {
			names = append(names, filepath.Join(d, n))
		}
		sort.Strings(names)
		if err := par2.Create(filepath.Join(d, "set.par2"), names, par2.CreateOptions{SliceByteCount: slice, NumParityShards: 4, NumGoroutines: 1}); err != nil {
			return nil, "", "Create failed: " + err.Error()
		}
		// the recovery block with the highest exponent gets other data under a valid packet checksum
		vols, _ := filepath.Glob(filepath.Join(d, "set.vol*.par2"))
		sort.Strings(vols)
		last := vols[len(vols)-1]
		raw, _ := os.ReadFile(last)
		ps, err := par2ref.ScanStrict(raw)
		if err != nil {
			return nil, "", "harness: " + err.Error()
		}
		var out []byte
		maxExp, at := uint32(0), -1
		for i, p := range ps {
			if p.Type == par2ref.TypeRecvSlic {
				if e, _, _ := par2ref.ParseRecovery(p.Body); at < 0 || e >= maxExp {
					maxExp, at = e, i
				}
			}
		}
		for i, p := range ps {
			body := append([]byte{}, p.Body...)
			if i == at {
				body[len(body)-3] ^= 0x40
			}
			out = append(out, par2ref.Packet{SetID: p.SetID, Type: p.Type, Body: body}.Encode()...)
		}
		os.WriteFile(last, out, 0o644)
		os.Remove(filepath.Join(d, "f1.dat"))
		var rerr error
		if p, msg := run.Safe(func() {
			_, rerr = par2.Repair(filepath.Join(d, "set.par2"), par2.RepairOptions{NumGoroutines: g, DoubleCheck: true})
		}); p {
			return nil, "", "Repair panicked: " + msg
		}
		snap, _ := fsx.Take(d)
		es := "nil"
		if rerr != nil {
			es = "error"
		}
		return snap.Files(), es, ""
	}
	base, berr, msg := state(1)
	if msg != "" {
		return msg
	}
	got, gerr, msg := state(c.G)
	if msg != "" {
		return msg
	}
	if berr != gerr {
		return fmt.Sprintf("Repair with DoubleCheck and an inconsistent surplus recovery block: %s with 1 goroutine, %s with %d", berr, gerr, c.G)
	}
	if len(base) != len(got) {
		return fmt.Sprintf("Repair with DoubleCheck and an inconsistent surplus recovery block left %d files behind with 1 goroutine and %d with %d goroutines", len(base), len(got), c.G)
	}
	for n, b := range base {
		if !bytes.Equal(got[n], b) {
			return fmt.Sprintf("Repair with DoubleCheck and an inconsistent surplus recovery block: %q differs afterwards between 1 and %d goroutines", n, c.G)
		}
	}
	return ""
}

// reconMatrix computes, in the reference field, the reconstruction matrix (k x d) of the PAR2 coder for the given
// missing data shards and used parity rows: R = M^-1 * ( parity[rows][available] | I ).
func reconMatrix(d int, missing, rows []int) [][]uint16 {
	k := len(missing)
	miss := map[int]bool{}
	for _, m := range missing {
		miss[m] = true
	}
	var avail []int
	for j := 0; j < d; j++ {
		if !miss[j] {
			avail = append(avail, j)
		}
	}
	// augmented [M | N]
	w := k + d
	a := make([][]uint16, k)
	for i := range a {
		a[i] = make([]uint16, w)
		for j, m := range missing {
			a[i][j] = gf16.FPow(par2c[m], uint64(rows[i]))
		}
		for j, av := range avail {
			a[i][k+j] = gf16.FPow(par2c[av], uint64(rows[i]))
		}
		a[i][k+len(avail)+i] = 1
	}
	for col := 0; col < k; col++ {
		p := -1
		for r := col; r < k; r++ {
			if a[r][col] != 0 {
				p = r
				break
			}
		}
		if p < 0 {
			return nil
		}
		a[col], a[p] = a[p], a[col]
		inv := gf16.FInv(a[col][col])
		for j := range a[col] {
			a[col][j] = gf16.FMul(a[col][j], inv)
		}
		for r := 0; r < k; r++ {
			if r != col && a[r][col] != 0 {
				f := a[r][col]
				for j := range a[r] {
					a[r][j] ^= gf16.FMul(f, a[col][j])
				}
			}
		}
	}
	out := make([][]uint16, k)
	for i := range a {
		out[i] = a[i][k:]
	}
	return out
}

// findSpecialRows searches parity-row triples whose reconstruction matrix contains the wanted coefficient in the wanted column.
func findSpecialRows(d int, missing []int, want uint16, col int, limit int) []int {
	for r2 := 1; r2 < limit; r2++ {
		for r3 := r2 + 1; r3 < r2+40 && r3 < limit; r3++ {
			rows := []int{0, r2, r3}
			if len(missing) == 2 {
				rows = []int{r2, r3}
			}
			m := reconMatrix(d, missing, rows)
			if m == nil {
				continue
			}
			for i := range m {
				for j := range m[i] {
					if m[i][j] == want && (col < 0 || j == col) {
						return rows
					}
				}
			}
		}
	}
	return nil
}

func TestCheck(t *testing.T) {
	cfg := run.Load("C12")
	rec := run.NewRec(cfg)
	defer rec.Finish(t)
	if raceEnabled {
		rec.Class("race-detector-build")
	}

	do := func(c Case) bool {
		rec.Eval()
		rec.SetCurrent(c.Op, c)
		var msg string
		var workers int
		if raceEnabled {
			// one subtest per case: the testing package fails the subtest when the race detector reported during it
			ok := t.Run("case", func(st *testing.T) { msg, workers = check(c) })
			if !ok && msg == "" {
				msg = "data race reported by the race detector during this case"
			}
			rec.Class("under-race-detector")
		} else {
			msg, workers = check(c)
		}
		rec.Class("op=" + c.Op)
		if msg != "" {
			return rec.Fail(c.Op, c, "", fmt.Sprintf("%+v: %s", c, msg)) == ""
		}
		if c.Op != "api" {
			if workers >= 2 {
				rec.Class("workers>=2")
				if c.Len < 16*c.G {
					rec.Class("len<16*goroutines")
				}
				if c.Len%workers != 0 {
					rec.Class("len%workers!=0")
				}
			}
			if c.G > (c.Len+15)/16 {
				rec.Class("goroutines>units")
			}
		}
		if workers >= 2 && c.G >= 2 {
			rec.NonTrivial(c)
		}
		return true
	}
	if cfg.Replay != "" {
		var c Case
		if _, err := run.LoadReplay(cfg.Replay, &c); err != nil {
			t.Fatal(err)
		}
		do(c)
		return
	}
	for _, f := range cfg.RegressFiles() {
		var c Case
		if _, err := run.LoadReplay(f, &c); err == nil && cfg.Shard == 0 {
			do(c)
		}
	}

	procs := []int{1, 2, 3, 4, 8, 16}
	idx := 0
	// every even length 0..L x goroutines 1..(len/16+3) and 64
	maxL := cfg.N(160, 300)
	if raceEnabled {
		maxL = cfg.N(96, 200)
	}
	for l := 0; l <= maxL; l += 2 {
		gs := []int{64}
		for g := 1; g <= l/16+3; g++ {
			gs = append(gs, g)
		}
		for _, g := range gs {
			idx++
			if !cfg.Mine(idx) {
				continue
			}
			d, p := 1+idx%8, 1+idx%6
			c := Case{Op: "gen", Coder: []string{"cauchy", "vand"}[idx%2], D: d, P: p, Len: l, G: g, Procs: procs[idx%len(procs)], Seed: uint64(idx)}
			do(c)
			c.Op = "rec"
			nm := 1 + idx%min(d, p)
			for m := 0; m < nm; m++ {
				c.MissD = append(c.MissD, (m*3+idx)%d)
			}
			c.MissD = dedup(c.MissD)
			do(c)
		}
	}
	for _, l := range []int{4094, 4096, 4098, 65536, 100000, 196608, 200000, 262144 + 96} {
		for _, g := range []int{2, 3, 5, 7, 16, 64, 300} {
			idx++
			if !cfg.Mine(idx) {
				continue
			}
			do(Case{Op: "gen", Coder: "vand", D: 3, P: 2, Len: l, G: g, Procs: procs[idx%len(procs)], Seed: uint64(idx)})
			do(Case{Op: "rec", Coder: "cauchy", D: 4, P: 3, Len: l, G: g, Procs: procs[idx%len(procs)], MissD: []int{1, 3}, Seed: uint64(idx)})
		}
	}
	// hundreds of short data shards (more shards than 16-byte units per goroutine), repeated: schedule-dependent merging of partial results
	for ci, dl := range [][3]int{{513, 2, 32}, {300, 3, 16}, {1025, 2, 48}, {260, 4, 2}} {
		idx++
		if !cfg.Mine(idx) {
			continue
		}
		reps := cfg.N(60, 400)
		if raceEnabled {
			reps /= 4
		}
		rec.Class("many-short-shards-repeated")
		for r := 0; r < reps; r++ {
			if !do(Case{Op: "gen", Coder: "cauchy", D: dl[0], P: dl[1], Len: dl[2], G: 8, Procs: 8, Seed: uint64(ci*1000 + r%7 + 1)}) {
				break
			}
			if r%10 == 0 && !do(Case{Op: "rec", Coder: "vand", D: dl[0], P: dl[1], Len: dl[2], G: 8, Procs: 8, MissD: []int{0, dl[0] - 1}, Seed: uint64(ci*1000 + r + 1)}) {
				break
			}
		}
	}
	// input shards at odd addresses
	for _, l := range []int{96, 4098, 65536*3 + 32, 1 << 20} {
		for _, g := range []int{2, 3, 8, 64} {
			idx++
			if !cfg.Mine(idx) {
				continue
			}
			rec.Class("input-shards-at-odd-addresses")
			do(Case{Op: "gen", Coder: "vand", D: 3, P: 2, Len: l, G: g, Procs: procs[idx%len(procs)], Odd: true, Seed: uint64(idx)})
			do(Case{Op: "rec", Coder: "cauchy", D: 4, P: 3, Len: l, G: g, Procs: procs[idx%len(procs)], Odd: true, MissD: []int{0, 2}, Seed: uint64(idx)})
		}
	}
	// goroutine counts up to the largest int
	for gi, g := range []int{1<<31 - 1, 1 << 31, 1 << 45, 1 << 59, 1<<63 - 1} {
		idx++
		if !cfg.Mine(idx) {
			continue
		}
		rec.Class("huge-goroutine-count")
		do(Case{Op: "gen", Coder: "cauchy", D: 2, P: 2, Len: 4096 + 2*gi, G: g, Procs: 4, Seed: uint64(idx)})
		do(Case{Op: "rec", Coder: "vand", D: 3, P: 2, Len: 130, G: g, Procs: 2, MissD: []int{1}, Seed: uint64(idx)})
	}
	// long shards, repeated many times: schedule-dependent failures in the hand-out of work (blocks claimed twice / past the end)
	for gi, g := range []int{2, 3, 4, 8, 16} {
		// two 64 KiB blocks and a bit per goroutine, not a multiple of 64 KiB; many workers finishing at about the same time
		l := g*2*65536 + 65536 + 1000
		if !cfg.Mine(7000+gi) && !cfg.Mine(7008+gi) {
			continue
		}
		reps := cfg.N(900, 5000)
		if raceEnabled {
			reps /= 8
		}
		rec.Class("long-shard-repetitions")
		for r := 0; r < reps; r++ {
			if !do(Case{Op: "gen", Coder: "cauchy", D: 1, P: 1, Len: l, G: g, Procs: 16, Seed: uint64(r%5 + 1)}) {
				break
			}
		}
	}
	// per-goroutine ranges that are exact multiples of 16 MiB
	for hi, lg := range [][2]int{{1 << 24, 1}, {1 << 24, 2}, {1 << 25, 2}, {1 << 25, 1}, {3 << 24, 3}} {
		if !cfg.Mine(7500+2*hi) || raceEnabled || (hi > 1 && !cfg.Thorough()) {
			continue
		}
		rec.Class("per-goroutine-range-multiple-of-16MiB")
		do(Case{Op: "gen", Coder: "cauchy", D: 2, P: 1, Len: lg[0], G: lg[1], Procs: 4, Seed: uint64(hi + 1)})
	}
	// reconstruction matrices that contain the coefficients 0 and 1 (fast paths), found by a reference search over parity rows
	for wi, w := range []struct {
		want uint16
		col  int
	}{{0, 0}, {0, 1}, {1, 0}, {0, -1}} {
		if !cfg.Mine(5000 + wi) {
			continue
		}
		d, missing := 4, []int{0, 1, 3}
		if wi == 1 {
			d, missing = 5, []int{1, 4}
		}
		rows := findSpecialRows(d, missing, w.want, w.col, 3000)
		if rows == nil {
			rec.Class("special-coefficient-not-found")
			continue
		}
		rec.Class("reconstruction-matrix-with-coefficient-0-or-1")
		for _, l := range []int{96, 200, 4096, 70000} {
			for _, g := range []int{2, 3, 8} {
				do(Case{Op: "rec", Coder: "vand", D: d, P: rows[len(rows)-1] + 1, Len: l, G: g, Procs: procs[(wi+g)%len(procs)], MissD: missing, KeepPar: rows, Seed: uint64(wi*100 + l)})
			}
		}
	}
	// API level
	for g := 2; g <= cfg.N(9, 20); g++ {
		for _, sl := range []int{4, 32, 100, 1024} {
			idx++
			if !cfg.Mine(idx) {
				continue
			}
			do(Case{Op: "api", D: 3, P: 2 + idx%5, Len: sl, G: g, Seed: uint64(idx)})
		}
	}
	do(Case{Op: "api", D: 2, P: 3, Len: 64, G: 64, Seed: uint64(cfg.Shard)})
	for _, g := range []int{2, 3, 4, 16} {
		idx++
		if cfg.Mine(idx) {
			rec.Class("failing-doublecheck-repair")
			do(Case{Op: "api", Coder: "badsurplus", G: g, Seed: uint64(idx)})
		}
	}
	// the default goroutine count (option 0) for every GOMAXPROCS value and reported CPU topology
	for _, pr := range []int{1, 2, 3, 4, 16} {
		for _, topo := range [][]int{nil, {1, 1}, {1, 2}, {2, 2}, {8, 2}, {4, 1}, {16, 1}, {3, 4}} {
			idx++
			if !cfg.Mine(idx) {
				continue
			}
			rec.Class("default-goroutine-count")
			do(Case{Op: "api", D: 2, P: 2, Len: 32, G: 0, Procs: pr, Topo: topo, Seed: uint64(idx)})
		}
	}

	n := cfg.N(800, 12000)
	if raceEnabled {
		n = cfg.N(200, 3000)
	}
	cfg.SetRapid(n, 1)
	rapid.Check(t, func(rt *rapid.T) {
		d := rapid.IntRange(1, 8).Draw(rt, "d")
		p := rapid.IntRange(1, 6).Draw(rt, "p")
		var l int
		switch rapid.IntRange(0, 4).Draw(rt, "lclass") {
		case 0:
			l = 2 * rapid.IntRange(0, 40).Draw(rt, "len")
		case 1:
			l = 16*rapid.IntRange(1, 40).Draw(rt, "units") + 2*rapid.IntRange(0, 7).Draw(rt, "extra")
		case 2:
			l = 2 * rapid.IntRange(0, 3000).Draw(rt, "len")
		default:
			l = 2 * rapid.IntRange(0, 200).Draw(rt, "len")
		}
		g := rapid.OneOf(rapid.IntRange(1, l/16+4), rapid.IntRange(1, 70)).Draw(rt, "g")
		op := rapid.SampledFrom([]string{"gen", "rec"}).Draw(rt, "op")
		c := Case{Op: op, Coder: rapid.SampledFrom([]string{"cauchy", "vand"}).Draw(rt, "coder"), D: d, P: p, Len: l, G: g,
			Procs: rapid.SampledFrom(procs).Draw(rt, "procs"), Seed: rapid.Uint64Range(1, 1<<40).Draw(rt, "seed")}
		if op == "rec" {
			nm := rapid.IntRange(1, min(d, p)).Draw(rt, "nm")
			c.MissD = rapid.SliceOfNDistinct(rapid.IntRange(0, d-1), nm, nm, rapid.ID[int]).Draw(rt, "miss")
		}
		if !do(c) {
			rt.Fatalf("failed")
		}
	})
}

func dedup(a []int) []int {
	seen := map[int]bool{}
	var out []int
	for _, v := range a {
		if !seen[v] {
			seen[v] = true
			out = append(out, v)
		}
	}
	return out
}
