// C18: I/O failures are reported, never swallowed, and never worsen the data.
package c18

import (
	"bytes"
	"crypto/md5"
	"encoding/binary"
	"encoding/json"
	"errors"
	"fmt"
	"os"
	"path/filepath"
	"sort"
	"strings"
	"syscall"
	"testing"

	"github.com/akalin/gopar/par1"
	"github.com/akalin/gopar/par2"
	"pgregory.net/rapid"
	"verifharness/ref/model"
	"verifharness/ref/par1ref"
	"verifharness/ref/par2ref"
	"verifharness/ref/run"
	"verifharness/ref/scen"
)

// ---------------------------------------------------------------- in-memory filesystem with fault injection

type call struct {
	Op   string // read | find | write
	Path string
}

type fault struct {
	At   int `json:"at"`   // call index
	Kind int `json:"kind"` // 0: error without effect; k>0 (writes only): error after a partial write, kind selects the prefix length
}

type memfs struct {
	files  map[string][]byte
	trace  []call
	faults map[int]int // call index -> kind
	hit    []int       // indices of injected faults that were reached
	done   []string    // completed writes
	torn   map[string]bool
}

var errIO = &os.PathError{Op: "io", Path: "injected", Err: syscall.EIO}

func newFS(files map[string][]byte) *memfs {
	m := &memfs{files: map[string][]byte{}, faults: map[int]int{}, torn: map[string]bool{}}
	for k, v := range files {
		m.files[k] = v
	}
	return m
}

func (m *memfs) step(op, p string) (int, bool) {
	i := len(m.trace)
	m.trace = append(m.trace, call{op, p})
	k, ok := m.faults[i]
	if ok {
		m.hit = append(m.hit, i)
	}
	return k, ok
}

func (m *memfs) ReadFile(p string) ([]byte, error) {
	p = filepath.Clean(p)
	if k, f := m.step("read", p); f {
		if k > 0 {
			// a read that fails in the middle: the bytes read so far come back together with the error (as ioutil.ReadFile does).
			// kind 1: half of the file; kind 2: every byte (the error strikes at the very end); kind 3: cut exactly behind the
			// first PAR2 packet (or the PAR1 header), so that what arrived parses cleanly
			d := m.files[p]
			n := len(d) / 2
			switch k {
			case 2:
				n = len(d)
			case 3:
				n = 0
				if len(d) >= 16 && string(d[:8]) == "PAR2\x00PKT" {
					if l := int(binary.LittleEndian.Uint64(d[8:])); l >= 64 && l <= len(d) {
						n = l
					}
				} else if len(d) >= 0x60 {
					n = 0x60
				}
			}
			return append([]byte{}, d[:n]...), errIO
		}
		return nil, errIO
	}
	d, ok := m.files[p]
	if !ok {
		return nil, &os.PathError{Op: "open", Path: p, Err: syscall.ENOENT}
	}
	return append([]byte{}, d...), nil
}

func (m *memfs) FindWithPrefixAndSuffix(prefix, suffix string) ([]string, error) {
	if _, f := m.step("find", prefix+"*"+suffix); f {
		return nil, errIO
	}
	var out []string
	for p := range m.files {
		if len(p) >= len(prefix)+len(suffix) && strings.HasPrefix(p, prefix) && strings.HasSuffix(p, suffix) && filepath.Dir(p) == filepath.Dir(prefix) {
			out = append(out, p)
		}
	}
	sort.Strings(out)
	return out, nil
}

func (m *memfs) WriteFile(p string, data []byte) error {
	p = filepath.Clean(p)
	if k, f := m.step("write", p); f {
		if k > 0 {
			n := 0
			switch k {
			case 1:
				n = 0
			case 2:
				n = 1
			case 3:
				n = len(data) / 2
			case 5:
				n = 16384 // exactly the prefix covered by the first-16-KiB hash
			case 6:
				n = 16383
			case 7:
				n = 16385
			default:
				n = len(data) - 1
			}
			if n > len(data) {
				n = len(data)
			}
			if n < 0 {
				n = 0
			}
			m.files[p] = append([]byte{}, data[:n]...)
			m.torn[p] = true
		}
		return errIO
	}
	m.files[p] = append([]byte{}, data...)
	m.done = append(m.done, p)
	return nil
}

// ---------------------------------------------------------------- cases

// Case: one operation on one archive state with a list of faults (first run) and optionally a fault during the re-run.
type Case struct {
	Format  string          `json:"format"` // par2 | par1
	Op      string          `json:"op"`     // create | verify | repair
	Files   []scen.FileSpec `json:"files"`
	Slice   int             `json:"slice"`
	N       int             `json:"n"`
	Damage  []scen.Damage   `json:"damage"`
	DelVols []int           `json:"del_vols"`
	DC      bool            `json:"double_check"`
	NonRec  bool            `json:"non_recovery,omitempty"` // par2: the main packet also lists a file that is not part of the recovery set (legal; other clients write such sets)
	Fault   fault           `json:"fault"`
	Fault2  *fault          `json:"fault2,omitempty"` // injected during the re-run
}

const dir = "/mem/work"

type world struct {
	c      Case
	S      int
	orig   map[string][]byte // name -> original
	names  []string
	f0     map[string][]byte // initial filesystem (absolute path -> bytes)
	idx    string
	prot   []model.ProtFile
	nvols  int
	exps   func(fs map[string][]byte) []int
	ownSet [16]byte
}

type outcome struct {
	err      error
	pan      string
	repaired []string
	v2       par2.VerifyResult
	v1       par1.VerifyResult
}

func (w *world) runOp(fs *memfs) outcome {
	var o outcome
	var paths []string
	for _, n := range w.names {
		paths = append(paths, filepath.Join(dir, n))
	}
	pan, msg := run.Safe(func() {
		switch w.c.Format + "/" + w.c.Op {
		case "par2/create":
			o.err = par2.VerifCreate(fs, w.idx, paths, par2.CreateOptions{SliceByteCount: w.S, NumParityShards: w.c.N, NumGoroutines: 2})
		case "par2/verify":
			o.v2, o.err = par2.VerifVerify(fs, w.idx, par2.VerifyOptions{NumGoroutines: 2})
		case "par2/repair":
			var r par2.RepairResult
			r, o.err = par2.VerifRepair(fs, w.idx, par2.RepairOptions{NumGoroutines: 2, DoubleCheck: w.c.DC})
			o.repaired = r.RepairedPaths
		case "par1/create":
			o.err = par1.VerifCreate(fs, w.idx, paths, par1.CreateOptions{NumParityFiles: w.c.N})
		case "par1/verify":
			o.v1, o.err = par1.VerifVerify(fs, w.idx, par1.VerifyOptions{VerifyAllData: w.c.DC})
		case "par1/repair":
			var r par1.RepairResult
			r, o.err = par1.VerifRepair(fs, w.idx, par1.RepairOptions{DoubleCheck: w.c.DC})
			o.repaired = r.RepairedPaths
		}
	})
	if pan {
		o.pan = msg
	}
	return o
}

func newWorld(c Case) (*world, string) {
	w := &world{c: c, S: c.Slice, orig: map[string][]byte{}}
	if c.Format == "par1" {
		w.S = 64
		w.idx = dir + "/set.par"
	} else {
		w.idx = dir + "/set.par2"
	}
	fs := newFS(nil)
	for _, f := range c.Files {
		d := f.Content(w.S)
		w.orig[f.Name] = d
		w.names = append(w.names, f.Name)
		fs.files[filepath.Join(dir, f.Name)] = d
	}
	if c.Op == "create" {
		w.f0 = fs.files
		return w, ""
	}
	// build the set fault-free, then damage
	cw := *w
	cw.c.Op = "create"
	if o := cw.runOp(fs); o.err != nil || o.pan != "" {
		return nil, fmt.Sprintf("fault-free Create failed: %v %s", o.err, o.pan)
	}
	state := map[string][]byte{}
	for n, d := range w.orig {
		state[n] = d
	}
	for _, d := range c.Damage {
		d.Apply(w.names, state)
	}
	for _, n := range w.names {
		p := filepath.Join(dir, n)
		if d, ok := state[n]; ok {
			fs.files[p] = d
		} else {
			delete(fs.files, p)
		}
	}
	var vols []string
	for p := range fs.files {
		if p != w.idx && (strings.HasPrefix(p, dir+"/set.vol") || strings.HasPrefix(p, dir+"/set.p")) {
			vols = append(vols, p)
		}
	}
	sort.Strings(vols)
	for _, v := range c.DelVols {
		if len(vols) > 0 {
			delete(fs.files, vols[v%len(vols)])
		}
	}
	w.f0 = fs.files
	if c.Format == "par2" {
		w.prot = scen.ProtOrder(w.orig, w.S)
		w.ownSet = par2ref.NewSet(w.S, w.orig).SetID()
		if c.NonRec {
			if msg := w.addNonRecoveryFile(fs.files); msg != "" {
				return nil, msg
			}
		}
	}
	return w, ""
}

// addNonRecoveryFile rewrites every PAR2 file of the set so that the main packet lists one more file outside the
// recovery set (with its description and checksum packets); the set ID changes with the main packet, so every packet
// is re-encoded under the new ID.  The file itself is present.
func (w *world) addNonRecoveryFile(files map[string][]byte) string {
	extra := []byte("a file that is listed in the main packet but is not part of the recovery set\n")
	files[dir+"/extra.txt"] = extra
	ef := par2ref.NewSetFile("extra.txt", extra, w.S)
	var newID [16]byte
	for p, raw := range files {
		if !strings.HasSuffix(p, ".par2") {
			continue
		}
		ps, err := par2ref.ScanStrict(raw)
		if err != nil {
			return "harness: " + p + ": " + err.Error()
		}
		var mainBody []byte
		for _, q := range ps {
			if q.Type == par2ref.TypeMain {
				mainBody = append(append([]byte{}, q.Body...), ef.ID[:]...)
			}
		}
		if mainBody == nil {
			return "harness: no main packet in " + p
		}
		newID = md5.Sum(mainBody)
		var out []byte
		for _, q := range ps {
			body := q.Body
			if q.Type == par2ref.TypeMain {
				body = mainBody
			}
			out = append(out, par2ref.Packet{SetID: newID, Type: q.Type, Body: body}.Encode()...)
			if q.Type == par2ref.TypeMain {
				out = append(out, par2ref.Packet{SetID: newID, Type: par2ref.TypeFileDesc, Body: par2ref.FileDescBody(ef)}.Encode()...)
				out = append(out, par2ref.Packet{SetID: newID, Type: par2ref.TypeIFSC, Body: par2ref.IFSCBody(ef)}.Encode()...)
			}
		}
		files[p] = out
	}
	w.ownSet = newID
	return ""
}

// withinCapacity decides from the model whether Repair must succeed on filesystem state fs.
func (w *world) withinCapacity(fs map[string][]byte) (decided, ok bool) {
	if w.c.Format == "par2" {
		cur := map[string][]byte{}
		for _, n := range w.names {
			if d, ok := fs[filepath.Join(dir, n)]; ok {
				cur[n] = d
			}
		}
		loc := model.Locate(w.S, w.prot, cur)
		var exps []int
		for p, d := range fs {
			if p == w.idx || !strings.HasPrefix(p, dir+"/set.") || !strings.HasSuffix(p, ".par2") {
				continue
			}
			for _, pk := range par2ref.ScanTolerant(d) {
				if pk.Type == par2ref.TypeRecvSlic && pk.SetID == w.ownSet {
					e, _, _ := par2ref.ParseRecovery(pk.Body)
					exps = append(exps, int(e))
				}
			}
		}
		if loc.Ambiguous {
			return false, false
		}
		enough, nonsing := model.Solvable(model.Missing(loc.May), exps)
		return true, enough && nonsing
	}
	var unusable, vols []int
	for i, n := range w.names {
		if d, ok := fs[filepath.Join(dir, n)]; !ok || !bytes.Equal(d, w.orig[n]) {
			unusable = append(unusable, i)
		}
	}
	for v := 1; v <= w.c.N; v++ {
		if _, ok := fs[fmt.Sprintf("%s/set.p%02d", dir, v)]; ok {
			vols = append(vols, v)
		}
	}
	enough, nonsing := par1ref.Solvable(unusable, vols)
	return true, enough && nonsing
}

// lostByCompletedWrites reports whether some protected slice content that existed in the initial state no longer exists in state (PAR2).
func (w *world) lostByCompletedWrites(state map[string][]byte) bool {
	if w.c.Format != "par2" {
		return false
	}
	cur := func(fs map[string][]byte) map[string][]byte {
		m := map[string][]byte{}
		for _, n := range w.names {
			if d, ok := fs[filepath.Join(dir, n)]; ok {
				m[n] = d
			}
		}
		return m
	}
	l0 := model.Locate(w.S, w.prot, cur(w.f0))
	l1 := model.Locate(w.S, w.prot, cur(state))
	for i := range l0.May {
		if l0.May[i] && !l1.May[i] {
			return true
		}
	}
	return false
}

func sameFS(a, b map[string][]byte) (bool, string) {
	for p, d := range a {
		if e, ok := b[p]; !ok || !bytes.Equal(d, e) {
			return false, p
		}
	}
	for p := range b {
		if _, ok := a[p]; !ok {
			return false, p
		}
	}
	return true, ""
}

func sameResult(a, b outcome) bool {
	return a.v2 == b.v2 && a.v1 == b.v1 && (a.err == nil) == (b.err == nil)
}

// evaluate runs the fault-free trace and then the faulted run(s). It returns (msg, key, reached).
func (w *world) evaluate(free *memfs, freeOut outcome) (string, string, bool) {
	c := w.c
	fs := newFS(w.f0)
	fs.faults[c.Fault.At] = c.Fault.Kind
	out := w.runOp(fs)
	if len(fs.hit) == 0 {
		return "", "", false
	}
	faulted := fs.trace[c.Fault.At]
	if out.pan != "" {
		return fmt.Sprintf("%s panicked after an injected fault at call %d (%s %s): %s", c.Op, c.Fault.At, faulted.Op, faulted.Path, out.pan), "", true
	}
	if out.err == nil {
		return fmt.Sprintf("%s returned nil although call %d (%s %s) failed with an I/O error", c.Op, c.Fault.At, faulted.Op, faulted.Path), "", true
	}
	// no success reported for a write that did not complete; completed writes are reported (Repair)
	if c.Op == "repair" {
		got := append([]string{}, out.repaired...)
		want := append([]string{}, fs.done...)
		sort.Strings(got)
		sort.Strings(want)
		if strings.Join(got, "|") != strings.Join(want, "|") {
			return fmt.Sprintf("Repair reports %v as repaired, but the writes that completed are %v (fault at call %d: %s %s)", got, want, c.Fault.At, faulted.Op, faulted.Path), "", true
		}
	}
	// nothing that was not being written is altered
	written := map[string]bool{}
	for _, cl := range fs.trace {
		if cl.Op == "write" {
			written[cl.Path] = true
		}
	}
	for p, d := range w.f0 {
		if e, ok := fs.files[p]; (!ok || !bytes.Equal(d, e)) && !written[p] {
			return fmt.Sprintf("%q was altered although it was never passed to WriteFile", p), "", true
		}
	}
	for p, d := range fs.files {
		if _, ok := w.f0[p]; !ok && !written[p] {
			return fmt.Sprintf("%q appeared although it was never passed to WriteFile", p), "", true
		}
		if written[p] && !fs.torn[p] {
			// completed writes carry the fault-free content
			isDone := false
			for _, q := range fs.done {
				if q == p {
					isDone = true
				}
			}
			if isDone && !bytes.Equal(d, free.files[p]) {
				return fmt.Sprintf("completed write of %q differs from the fault-free content", p), "", true
			}
		}
	}
	// rerun (optionally with a second fault first)
	state := fs.files
	if c.Fault2 != nil {
		fs2 := newFS(state)
		fs2.faults[c.Fault2.At] = c.Fault2.Kind
		o2 := w.runOp(fs2)
		if o2.pan != "" {
			return "re-run with a second fault panicked: " + o2.pan, "", true
		}
		if len(fs2.hit) > 0 && o2.err == nil {
			return "re-run returned nil although its injected fault was reached", "", true
		}
		state = fs2.files
	}
	fs3 := newFS(state)
	o3 := w.runOp(fs3)
	if o3.pan != "" {
		return "fault-free re-run panicked: " + o3.pan, "", true
	}
	switch c.Op {
	case "create":
		if o3.err != nil {
			return fmt.Sprintf("Create re-run after the fault is gone failed: %v", o3.err), "", true
		}
		if ok, p := sameFS(fs3.files, free.files); !ok {
			return fmt.Sprintf("after re-running Create the files differ from a fault-free run (%s)", p), "", true
		}
	case "verify":
		if !sameResult(o3, freeOut) {
			return fmt.Sprintf("Verify re-run result %+v %+v (err %v) differs from the fault-free result %+v %+v (err %v)", o3.v2, o3.v1, o3.err, freeOut.v2, freeOut.v1, freeOut.err), "", true
		}
	case "repair":
		decided, within := w.withinCapacity(state)
		allOrig := true
		for _, n := range w.names {
			if d, ok := fs3.files[filepath.Join(dir, n)]; !ok || !bytes.Equal(d, w.orig[n]) {
				allOrig = false
			}
		}
		if o3.err == nil && !allOrig {
			return "Repair re-run returned nil but files are not restored", "", true
		}
		if decided && within && o3.err != nil {
			return fmt.Sprintf("Repair re-run failed (%v) although the state left by the fault is within the recovery capacity", o3.err), "", true
		}
		if c.Fault.Kind == 0 && c.Fault2 == nil && freeOut.err == nil {
			if ok, p := sameFS(fs3.files, free.files); !ok {
				key := ""
				if w.lostByCompletedWrites(fs.files) {
					// signature: the only thing that happened before the re-run are completed writes of exact originals,
					// and one of them overwrote the last surviving copy of another file's slice (in-place rewrite order)
					key = "KF1-inplace-repair-overwrites-last-copy"
				}
				return fmt.Sprintf("after a fault without effect and a re-run, the final state differs from the fault-free final state (%s; re-run error: %v)", p, o3.err), key, true
			}
		}
	}
	return "", "", true
}

var _ = errors.New

func TestCheck(t *testing.T) {
	cfg := run.Load("C18")
	rec := run.NewRec(cfg)
	defer rec.Finish(t)

	// enumerate all single faults for a generated (operation, state); returns false on a violation
	sweep := func(base Case, pairs int, pairSeed uint64) bool {
		w, msg := newWorld(base)
		if msg != "" {
			rec.Fail("setup", base, "", msg)
			return false
		}
		free := newFS(w.f0)
		freeOut := w.runOp(free)
		if freeOut.pan != "" {
			rec.Fail("fault-free", base, "", "fault-free run panicked: "+freeOut.pan)
			return false
		}
		needsRepair := false
		for _, n := range w.names {
			if d, ok := w.f0[filepath.Join(dir, n)]; !ok || !bytes.Equal(d, w.orig[n]) {
				needsRepair = true
			}
		}
		ok := true
		big := false
		for _, f := range base.Files {
			if f.Size > 16385 {
				big = true
			}
		}
		rec.ClassN("trace-length-total", uint64(len(free.trace)))
		rec.Class("sweep:" + base.Format + "/" + base.Op)
		for i, cl := range free.trace {
			kinds := []int{0}
			if cl.Op == "read" {
				kinds = []int{0, 1, 2, 3}
			}
			if cl.Op == "write" {
				kinds = []int{0, 1, 2, 3, 4}
				if big {
					kinds = append(kinds, 5, 6, 7)
				}
			}
			for _, k := range kinds {
				c := base
				c.Fault = fault{At: i, Kind: k}
				w.c = c
				rec.Eval()
				rec.Class(base.Format + "/" + base.Op + "/" + cl.Op)
				msg, key, reached := w.evaluate(free, freeOut)
				if msg != "" {
					if rec.Fail(base.Format+"-"+base.Op, c, key, msg) != "" {
						ok = false
					}
					continue
				}
				if reached && (base.Op != "repair" || needsRepair) {
					rec.NonTrivial(c)
				}
			}
		}
		// sampled pairs: a second fault during the re-run
		s := pairSeed | 1
		for p := 0; p < pairs && len(free.trace) > 0; p++ {
			s ^= s << 13
			s ^= s >> 7
			s ^= s << 17
			i := int(s>>8) % len(free.trace)
			j := int(s>>24) % len(free.trace)
			c := base
			c.Fault = fault{At: i, Kind: int(s>>40) % 5}
			if free.trace[i].Op != "write" {
				c.Fault.Kind = 0
			}
			c.Fault2 = &fault{At: j, Kind: 0}
			w.c = c
			rec.Eval()
			rec.Class("fault-pair")
			if msg, key, _ := w.evaluate(free, freeOut); msg != "" {
				if rec.Fail(base.Format+"-"+base.Op+"-pair", c, key, msg) != "" {
					ok = false
				}
			}
		}
		return ok
	}

	if cfg.Replay != "" {
		var probe struct {
			Fault json.RawMessage `json:"fault"`
		}
		var rc RFCase
		if rf, err := run.LoadReplay(cfg.Replay, &probe); err == nil && rf.Kind == "realfs" {
			run.LoadReplay(cfg.Replay, &rc)
			rec.Eval()
			if msg := runRF(rc); msg != "" && msg != "INCONCLUSIVE" {
				rec.Fail("realfs", rc, "", msg)
			}
			return
		}
		var c Case
		if _, err := run.LoadReplay(cfg.Replay, &c); err != nil {
			t.Fatal(err)
		}
		w, msg := newWorld(c)
		if msg != "" {
			t.Fatal(msg)
		}
		base := c
		base.Fault, base.Fault2 = fault{At: -1}, nil
		w.c = base
		free := newFS(w.f0)
		freeOut := w.runOp(free)
		w.c = c
		rec.Eval()
		if msg, key, _ := w.evaluate(free, freeOut); msg != "" {
			rec.Fail("replay", c, key, msg)
		}
		return
	}
	for _, f := range cfg.RegressFiles() {
		var c Case
		if _, err := run.LoadReplay(f, &c); err == nil && cfg.Shard == 0 {
			if w, msg := newWorld(c); msg == "" {
				base := c
				base.Fault, base.Fault2 = fault{At: -1}, nil
				w.c = base
				free := newFS(w.f0)
				freeOut := w.runOp(free)
				w.c = c
				rec.Eval()
				if msg, key, _ := w.evaluate(free, freeOut); msg != "" {
					rec.Fail("regress", c, key, msg)
				}
			}
		}
	}

	if cfg.Shard == 0 {
		realFSFaults(rec)
	}
	// fixed states with a file above 16 KiB (torn writes at 16383/16384/16385 bytes)
	for bi, b := range []Case{
		{Format: "par1", Op: "repair", N: 2, Files: []scen.FileSpec{{Name: "a.dat", Size: 20000, Kind: "random", Seed: 61}, {Name: "b.bin", Size: 300, Kind: "random", Seed: 62}}, Damage: []scen.Damage{{Op: "delete", File: 0}}},
		{Format: "par1", Op: "repair", N: 2, Files: []scen.FileSpec{{Name: "a.dat", Size: 32768, Kind: "random", Seed: 63}, {Name: "b.bin", Size: 40000, Kind: "random", Seed: 64}}, Damage: []scen.Damage{{Op: "flip", File: 0, Off: 5}, {Op: "delete", File: 1}}},
		{Format: "par2", Op: "repair", Slice: 1024, N: 25, Files: []scen.FileSpec{{Name: "a.dat", Size: 20000, Kind: "random", Seed: 65}, {Name: "sub/b.bin", Size: 300, Kind: "random", Seed: 66}}, Damage: []scen.Damage{{Op: "delete", File: 0}}},
		{Format: "par2", Op: "create", Slice: 2048, N: 2, Files: []scen.FileSpec{{Name: "a.dat", Size: 40000, Kind: "random", Seed: 67}}},
		{Format: "par1", Op: "repair", N: 2, Files: []scen.FileSpec{{Name: "a.dat", Size: 40, Kind: "random", Seed: 73}, {Name: "b.dat", Size: 40, Kind: "random", Seed: 73}, {Name: "c.dat", Size: 11, Kind: "random", Seed: 74}}, Damage: []scen.Damage{{Op: "delete", File: 1}}},
		{Format: "par2", Op: "repair", Slice: 8, N: 2, Files: []scen.FileSpec{{Name: "a.dat", Size: 24, Kind: "random", Seed: 75}, {Name: "b.dat", Size: 24, Kind: "random", Seed: 75}}, Damage: []scen.Damage{{Op: "delete", File: 0}}},
		{Format: "par2", Op: "verify", Slice: 8, N: 2, NonRec: true, Files: []scen.FileSpec{{Name: "a.dat", Size: 30, Kind: "random", Seed: 69}, {Name: "sub/b.bin", Size: 9, Kind: "random", Seed: 70}}, Damage: []scen.Damage{{Op: "flip", File: 0, Off: 3}}},
		{Format: "par2", Op: "repair", Slice: 8, N: 3, NonRec: true, DC: true, Files: []scen.FileSpec{{Name: "a.dat", Size: 30, Kind: "random", Seed: 71}, {Name: "sub/b.bin", Size: 9, Kind: "random", Seed: 72}}, Damage: []scen.Damage{{Op: "delete", File: 1}}},
		{Format: "par1", Op: "create", N: 2, Files: []scen.FileSpec{{Name: "a.dat", Size: 40000, Kind: "random", Seed: 68}}},
	} {
		if cfg.Mine(9000 + bi) {
			b.Fault = fault{At: -1}
			sweep(b, 4, uint64(bi+1))
		}
	}
	cfg.SetRapid(cfg.N(400, 3000), 1)
	rapid.Check(t, func(rt *rapid.T) {
		c := Case{Format: rapid.SampledFrom([]string{"par2", "par1"}).Draw(rt, "format"), Op: rapid.SampledFrom([]string{"create", "verify", "repair", "repair"}).Draw(rt, "op")}
		if c.Format == "par2" {
			c.Slice = rapid.SampledFrom([]int{4, 8, 64}).Draw(rt, "S")
			nf := rapid.IntRange(1, 4).Draw(rt, "nf")
			for i := 0; i < nf; i++ {
				c.Files = append(c.Files, scen.FileSpec{Name: []string{"a.dat", "sub/b.bin", "c c.txt", "d"}[i], Size: rapid.IntRange(1, 5*c.Slice).Draw(rt, "size"), Kind: "random", Seed: rapid.Uint64Range(0, 1<<20).Draw(rt, "seed")})
			}
			c.N = rapid.IntRange(1, 6).Draw(rt, "n")
		} else {
			nf := rapid.IntRange(1, 4).Draw(rt, "nf")
			for i := 0; i < nf; i++ {
				c.Files = append(c.Files, scen.FileSpec{Name: []string{"a.dat", "b.bin", "c c.txt", "d"}[i], Size: rapid.IntRange(1, 100).Draw(rt, "size"), Kind: "random", Seed: rapid.Uint64Range(0, 1<<20).Draw(rt, "seed")})
			}
			c.N = rapid.IntRange(1, 3).Draw(rt, "n")
		}
		if c.Op != "create" {
			nd := rapid.IntRange(0, 3).Draw(rt, "ndamage")
			if c.Op == "repair" {
				nd = rapid.IntRange(1, 3).Draw(rt, "ndamage")
			}
			for i := 0; i < nd; i++ {
				c.Damage = append(c.Damage, scen.GenDamage(rt, len(c.Files), scen.MaxLen(c.Files), max(c.Slice, 4), []string{"delete", "delete", "flip", "insert", "truncate", "swap", "overwrite"}))
			}
			if rapid.IntRange(0, 3).Draw(rt, "delvol") == 0 {
				c.DelVols = []int{rapid.IntRange(0, 5).Draw(rt, "dv")}
			}
		}
		c.DC = rapid.Bool().Draw(rt, "dc")
		c.NonRec = c.Format == "par2" && c.Op != "create" && rapid.IntRange(0, 4).Draw(rt, "nonrec") == 0
		c.Fault = fault{At: -1}
		if !sweep(c, cfg.N(6, 30), rapid.Uint64Range(1, 1<<40).Draw(rt, "pairseed")) {
			rt.Fatalf("C18 failed")
		}
	})
	rec.SetExtra("single_faults_exhaustive", "for every generated (operation, archive state) every I/O call of the fault-free trace is failed in turn with every applicable kind")
}
