package c18

import (
	"bytes"
	"encoding/json"
	"fmt"
	"os"
	"os/exec"
	"os/signal"
	"path/filepath"
	"strconv"
	"strings"
	"syscall"
	"testing"
	"verifharness/ref/scen"

	"github.com/akalin/gopar/par1"
	"github.com/akalin/gopar/par2"
	"verifharness/ref/run"
)

// Real-filesystem faults for the production file adapter (defaultFileIO), which the in-memory enumeration
// cannot reach: an unlistable directory, an unreadable file, an unwritable target.  They are provoked with
// permissions, so the operations run in a worker process with dropped privileges (uid 65534).

type rfReply struct {
	VerifyErr string `json:"verify_err"`
	RepairErr string `json:"repair_err"`
	Repaired  int    `json:"repaired"`
	Pan       string `json:"pan"`
}

func TestRealFSWorker(t *testing.T) {
	idx := os.Getenv("VERIF_C18_RF_INDEX")
	if idx == "" {
		t.Skip("worker entry point")
	}
	var r rfReply
	if lim := os.Getenv("VERIF_C18_RF_FSIZE"); lim != "" {
		// writes beyond this file size fail with EFBIG (a partial write precedes the failure)
		n, _ := strconv.ParseUint(lim, 10, 64)
		signal.Ignore(syscall.SIGXFSZ)
		syscall.Setrlimit(syscall.RLIMIT_FSIZE, &syscall.Rlimit{Cur: n, Max: n})
	}
	if os.Getenv("VERIF_C18_RF_CREATE") == "1" {
		// Create into a directory in which one output name is a symbolic link to /dev/full: open succeeds, write(2) fails
		dir := filepath.Dir(idx)
		in := []string{filepath.Join(dir, "a.dat"), filepath.Join(dir, "b.dat")}
		pan, msg := run.Safe(func() {
			var err error
			if filepath.Ext(idx) == ".par2" {
				err = par2.Create(idx, in, par2.CreateOptions{SliceByteCount: 64, NumParityShards: 4, NumGoroutines: 1})
			} else {
				err = par1.Create(idx, in, par1.CreateOptions{NumParityFiles: 2})
			}
			if err != nil {
				r.RepairErr = err.Error()
			}
		})
		if pan {
			r.Pan = msg
		}
		b, _ := json.Marshal(r)
		fmt.Printf("\nRFREPLY %s\n", b)
		return
	}
	pan, msg := run.Safe(func() {
		if filepath.Ext(idx) == ".par2" {
			_, err := par2.Verify(idx, par2.VerifyOptions{NumGoroutines: 1})
			if err != nil {
				r.VerifyErr = err.Error()
			}
			res, err := par2.Repair(idx, par2.RepairOptions{NumGoroutines: 1})
			if err != nil {
				r.RepairErr = err.Error()
			}
			r.Repaired = len(res.RepairedPaths)
		} else {
			_, err := par1.Verify(idx, par1.VerifyOptions{})
			if err != nil {
				r.VerifyErr = err.Error()
			}
			res, err := par1.Repair(idx, par1.RepairOptions{})
			if err != nil {
				r.RepairErr = err.Error()
			}
			r.Repaired = len(res.RepairedPaths)
		}
	})
	if pan {
		r.Pan = msg
	}
	b, _ := json.Marshal(r)
	fmt.Printf("\nRFREPLY %s\n", b)
}

// RFCase is one real-filesystem fault scenario.
type RFCase struct {
	Format string `json:"format"`
	Fault  string `json:"fault"` // nolist | noread-data | noread-volume | nowrite-dir | nowrite-file
}

func runRF(c RFCase) (msg string) {
	var tk int
	if n, _ := fmt.Sscanf(c.Fault, "torn-write-fsize-%d", &tk); n == 1 {
		return runTorn(tk)
	}
	root := run.Scratch("c18rf")
	defer func() {
		filepath.Walk(root, func(p string, info os.FileInfo, err error) error { os.Chmod(p, 0o777); return nil })
		os.RemoveAll(root)
	}()
	os.Chmod(root, 0o755)
	dir := filepath.Join(root, "w")
	os.MkdirAll(dir, 0o755)
	a := bytes.Repeat([]byte("protected content a "), 9)
	b := []byte("second file")
	os.WriteFile(filepath.Join(dir, "a.dat"), a, 0o644)
	os.WriteFile(filepath.Join(dir, "b.dat"), b, 0o644)
	var idx string
	var err error
	if c.Format == "par2" {
		idx = filepath.Join(dir, "set.par2")
		err = par2.Create(idx, []string{filepath.Join(dir, "a.dat"), filepath.Join(dir, "b.dat")}, par2.CreateOptions{SliceByteCount: 64, NumParityShards: 4, NumGoroutines: 1})
	} else {
		idx = filepath.Join(dir, "set.par")
		err = par1.Create(idx, []string{filepath.Join(dir, "a.dat"), filepath.Join(dir, "b.dat")}, par1.CreateOptions{NumParityFiles: 2})
	}
	if err != nil {
		return "harness: Create failed: " + err.Error()
	}
	createFault := strings.HasPrefix(c.Fault, "create-")
	if createFault {
		// the set is created again by the worker; one of the output names (a file of less than 4096 bytes) now is a
		// symbolic link to /dev/full, where every write(2) fails with ENOSPC after a successful open
		if _, err := os.Stat("/dev/full"); err != nil {
			return "INCONCLUSIVE"
		}
		out, _ := filepath.Glob(filepath.Join(dir, "set.*"))
		target := idx
		if c.Fault == "create-volume-devfull" {
			target = filepath.Join(dir, "set.vol00+01.par2")
			if c.Format == "par1" {
				target = filepath.Join(dir, "set.p01")
			}
		}
		for _, o := range out {
			os.Remove(o)
		}
		os.Symlink("/dev/full", target)
	}
	// state that needs a repair: b.dat is missing (so that Repair has to write) unless the fault is about reading a.dat
	vol := "set.vol00+01.par2"
	if c.Format == "par1" {
		vol = "set.p01"
	}
	switch c.Fault {
	case "nolist":
		os.Remove(filepath.Join(dir, "b.dat"))
	case "noread-data":
		os.Chmod(filepath.Join(dir, "a.dat"), 0o000)
	case "noread-volume":
		os.Remove(filepath.Join(dir, "b.dat"))
		os.Chmod(filepath.Join(dir, vol), 0o000)
	case "nowrite-dir":
		os.Remove(filepath.Join(dir, "b.dat"))
	case "nowrite-dangling":
		// the data file was replaced by a symlink that points into a directory that does not exist
		os.Remove(filepath.Join(dir, "b.dat"))
		os.Symlink(filepath.Join(dir, "no-such-dir", "x", "b.dat"), filepath.Join(dir, "b.dat"))
	case "nowrite-file":
		os.WriteFile(filepath.Join(dir, "b.dat"), []byte("damaged!!!!"), 0o644)
	}
	filepath.Walk(root, func(p string, info os.FileInfo, err error) error { os.Chown(p, 65534, 65534); return nil })
	switch c.Fault {
	case "nowrite-file":
		os.Chmod(filepath.Join(dir, "b.dat"), 0o400)
	case "nolist":
		os.Chmod(dir, 0o300) // files can be opened by name, the directory cannot be listed
	case "nowrite-dir":
		os.Chmod(dir, 0o500)
	}
	cmd := exec.Command(os.Args[0], "-test.run", "^TestRealFSWorker$", "-test.v")
	cmd.Env = append(os.Environ(), "VERIF_C18_RF_INDEX="+idx)
	if createFault {
		cmd.Env = append(cmd.Env, "VERIF_C18_RF_CREATE=1")
	}
	cmd.SysProcAttr = &syscall.SysProcAttr{Credential: &syscall.Credential{Uid: 65534, Gid: 65534}}
	cmd.Dir = "/"
	out, err := cmd.CombinedOutput()
	i := bytes.Index(out, []byte("RFREPLY "))
	if i < 0 {
		return "INCONCLUSIVE" // worker could not run with dropped privileges here: not a violation
	}
	var r rfReply
	line := out[i+8:]
	if j := bytes.IndexByte(line, '\n'); j >= 0 {
		line = line[:j]
	}
	if json.Unmarshal(line, &r) != nil {
		return ""
	}
	if r.Pan != "" {
		return "panicked: " + r.Pan
	}
	switch c.Fault {
	case "create-index-devfull", "create-volume-devfull":
		if r.RepairErr == "" {
			return "every write to one of the output files failed (ENOSPC) but Create returned nil"
		}
	case "nolist":
		if c.Format == "par2" && (r.VerifyErr == "" || r.RepairErr == "") {
			return fmt.Sprintf("the directory listing failed (directory mode 0300) but Verify err=%q, Repair err=%q: a failed listing must be reported, not treated as 'no recovery files'", r.VerifyErr, r.RepairErr)
		}
	case "noread-data", "noread-volume":
		if r.VerifyErr == "" || r.RepairErr == "" {
			return fmt.Sprintf("a file could not be read (permission denied) but Verify err=%q, Repair err=%q: only a missing file may be treated as damage", r.VerifyErr, r.RepairErr)
		}
	case "nowrite-dir", "nowrite-file", "nowrite-dangling":
		if r.RepairErr == "" || r.Repaired != 0 {
			return fmt.Sprintf("the write of the repaired file failed (permission denied) but Repair err=%q and reports %d repaired paths", r.RepairErr, r.Repaired)
		}
	}
	return ""
}

// runTorn: a write on the real filesystem that fails part-way (file size limit) leaves a torn file; the fault is then
// removed and Repair is run again.  The torn write destroyed less than the remaining recovery capacity, so the second
// run has to restore everything.
func runTorn(k int) string {
	root := run.Scratch("c18torn")
	defer os.RemoveAll(root)
	os.Chmod(root, 0o755)
	dir := filepath.Join(root, "w")
	os.MkdirAll(dir, 0o755)
	a := (scen.FileSpec{Name: "a", Size: 10*1024 - 100*k, Kind: "random", Seed: uint64(80 + k)}).Content(1024)
	b := []byte("second file")
	pa := filepath.Join(dir, "a.dat")
	os.WriteFile(pa, a, 0o644)
	os.WriteFile(filepath.Join(dir, "b.dat"), b, 0o644)
	idx := filepath.Join(dir, "set.par2")
	if err := par2.Create(idx, []string{pa, filepath.Join(dir, "b.dat")}, par2.CreateOptions{SliceByteCount: 1024, NumParityShards: 3, NumGoroutines: 1}); err != nil {
		return "harness: Create failed: " + err.Error()
	}
	d := append([]byte{}, a...)
	d[5] ^= 0x40
	os.WriteFile(pa, d, 0o644)
	filepath.Walk(root, func(p string, info os.FileInfo, err error) error { os.Chown(p, 65534, 65534); return nil })
	runWorker := func(env ...string) (rfReply, bool) {
		cmd := exec.Command(os.Args[0], "-test.run", "^TestRealFSWorker$", "-test.v")
		cmd.Env = append(append(os.Environ(), "VERIF_C18_RF_INDEX="+idx), env...)
		cmd.SysProcAttr = &syscall.SysProcAttr{Credential: &syscall.Credential{Uid: 65534, Gid: 65534}}
		cmd.Dir = "/"
		out, _ := cmd.CombinedOutput()
		var r rfReply
		i := bytes.Index(out, []byte("RFREPLY "))
		if i < 0 {
			return r, false
		}
		line := out[i+8:]
		if j := bytes.IndexByte(line, '\n'); j >= 0 {
			line = line[:j]
		}
		return r, json.Unmarshal(line, &r) == nil
	}
	r1, ok := runWorker("VERIF_C18_RF_FSIZE=8192")
	if !ok {
		return "INCONCLUSIVE"
	}
	if r1.Pan != "" {
		return "panicked: " + r1.Pan
	}
	if r1.RepairErr == "" {
		if got, _ := os.ReadFile(pa); !bytes.Equal(got, a) {
			return "the rewrite of a.dat was cut short by the file size limit but Repair returned nil"
		}
		return "INCONCLUSIVE" // the limit did not bite here
	}
	r2, ok := runWorker()
	if !ok {
		return "INCONCLUSIVE"
	}
	if r2.Pan != "" {
		return "second run panicked: " + r2.Pan
	}
	got, _ := os.ReadFile(pa)
	if r2.RepairErr != "" || !bytes.Equal(got, a) {
		return fmt.Sprintf("after a write torn at 8192 of %d bytes (8 of 10 slices written, 3 recovery blocks), the fault being gone, Repair does not complete: err=%q, restored=%v", len(a), r2.RepairErr, bytes.Equal(got, a))
	}
	return ""
}

func realFSFaults(rec *run.Rec) {
	if os.Geteuid() != 0 {
		rec.Class("realfs-faults-skipped(not root)")
		return
	}
	for k := 0; k < 2; k++ {
		c := RFCase{Format: "par2", Fault: fmt.Sprintf("torn-write-fsize-%d", k)}
		rec.Eval()
		rec.Class("realfs:torn-write-fsize")
		switch msg := runTorn(k); msg {
		case "INCONCLUSIVE":
			rec.Inconclusive("realfs worker could not run with dropped privileges or the file size limit did not bite")
		case "":
			rec.NonTrivial(c)
		default:
			rec.Fail("realfs", c, "", "par2 torn-write-fsize: "+msg)
		}
	}
	for _, f := range []string{"par2", "par1"} {
		for _, k := range []string{"nolist", "noread-data", "noread-volume", "nowrite-dir", "nowrite-file", "nowrite-dangling", "create-index-devfull", "create-volume-devfull"} {
			c := RFCase{Format: f, Fault: k}
			rec.Eval()
			rec.Class("realfs:" + k)
			msg := runRF(c)
			if msg == "INCONCLUSIVE" {
				rec.Inconclusive("realfs worker could not run with dropped privileges")
				continue
			}
			if msg != "" {
				rec.Fail("realfs", c, "", fmt.Sprintf("%s %s: %s", f, k, msg))
				continue
			}
			rec.NonTrivial(c)
		}
	}
}
