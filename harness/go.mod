module verifharness

go 1.23

require (
	github.com/akalin/gopar v0.0.0
	github.com/klauspost/cpuid/v2 v2.0.2
	pgregory.net/rapid v1.3.0
)

require github.com/klauspost/reedsolomon v1.9.11 // indirect

replace github.com/akalin/gopar => /repo
